"""C04 — single-crossingness (is_single_crossing, is_single_crossing_conflict_sets).

Since the deepening round the algorithm of is_single_crossing is also mirrored (c04.algo = sc_algo, proved sound and
complete on well-formed profiles): verdicts must agree (they do whenever the implementation agrees with the references),
exact agreement of the returned sequence is recorded as a statistic.

Shape (R): the implementation's verdict is compared with the proved reference deciders of Model/SC.v
(c04.decide = brute force over arrangements, n <= 7; c04.cdecide = nested conflict sets, polynomial, proved
equivalent to the specification), the returned sequence goes through the verified witness checker c04.check at
every size, and large negatives are certified by c04.core (an embedded small core refuted by the brute force;
theorem sc_core_refutes_sound)."""
import itertools
import random

from core import proto
from . import common
from .common import case, ordinal_instance, strict, rand_perm

ID = "C04"
COVER_FILES = ['properties/subdomains/ordinal/singlecrossing.py']
RULE = ("exhaustive: every set of distinct strict orders over 3 alternatives (2^6 subsets, ids 0..2 and 1..3) in EVERY "
        "storage order; over 4 alternatives every set of n <= 4 (quick) / n <= 5 (thorough) distinct orders, in every "
        "storage order for n <= 3 (quick) / n <= 4 (thorough), else sorted, reversed and one random shuffle; "
        "single-crossing chains (maximal and sub-chains, m <= 8) stored with every choice of the first two stored "
        "orders (first stored order in the middle of the chain, tails of different lengths, n < m and n >= m); "
        "switch-back profiles (a chain plus an order beyond its end that switches back a pair switched before the first "
        "stored order: every single order is compatible with the first two stored orders); random: swap-walk single-crossing sequences (m <= 6, n <= 7) shuffled, with and without "
        "one off-sequence order, 'stars' (a sequence plus two or three adjacent-swap neighbours of one member, m <= 8, "
        "n <= 15: score ties), uniformly random sets of orders (m <= 6, n <= 7), a block dedicated to the n < m path "
        "(m in 5..8, 3 <= n < m: walks, walk+1, stars, orders near a common base); large planted single-crossing profiles (m <= 12, "
        "n <= 40) and large negatives (planted profile + embedded refuted core). "
        "forks (near-miss negatives: a chain plus two neighbours of its end, m = 5..8); ~15 % of all cases first call "
        "kendall_tau_distance(normalise=True) on the first two stored orders and other pairs (cross-call history); "
        "~40 % of the structured cases (all forks) get small non-contiguous ids (random subsets of range(0,4m), "
        "range(0,m*m)); about a quarter of the structured / random cases are relabelled to id sets containing 0 (falsy), ~8 % to huge ids "
        "(10**18, 2**64+1, 2**100); non-trivial = at least 3 distinct orders")
EXHAUSTIVE = {"quick": "m=3: all subsets of the 6 orders in every storage order (ids 0..2 and 1..3); m=4: all sets of "
                       "<= 4 distinct orders, every storage order for n <= 3, {sorted, reversed, shuffled} for n = 4; "
                       "m=5: all sets of <= 2 orders in both storage orders",
              "thorough": "m=3: all subsets of the 6 orders in every storage order (ids 0..2 and 1..3); m=4: all sets "
                          "of <= 5 distinct orders, every storage order for n <= 4, {sorted, reversed, shuffled} for "
                          "n = 5; m=5: all sets of <= 2 orders in both storage orders"}
TRUSTED = ["is_single_crossing is MIRRORED step by step by sc_algo (Model/SCAlgo.v: scores relative to the first two stored "
           "orders, stable sort for n < m, bucket array + collision test for n >= m, verification pass) and the mirror is "
           "proved exact for every size (sc_algo_sound, sc_algo_complete, sc_algo_no_error); the implementation is "
           "compared with it on every generated case: verdict (hard) and returned sequence (counted statistic; a "
           "different but valid witness is not an alarm)",
           "is_single_crossing_conflict_sets is mirrored literally by conflict_sets_algo (sets of (min, max) pairs as "
           "lists used through membership), proved equal to sc_conflict_decide and hence exact "
           "(conflict_sets_algo_eq / _correct); the implementation's verdict is compared on every case",
           "OrdinalInstance.flatten_strict (tuple of the single member of each class) is used as is; "
           "kendall_tau_distance = ktd (theorem ktd_kendall_tau, C20 model)"]
ASSUMPTIONS = ["profiles are duplicate-free lists of strict complete orders over the alternatives of the instance "
               "(data type soc), at least one order; alternatives are non-negative integers; multiplicities arbitrary >= 1"]
THEOREMS_FOR_OP = {
    "c04.session": "sc_decide_correct / sc_conflict_decide_correct / sc_algo_correct on the profile at each question; "
                   "the functions are pure (the model is a function of the profile)",
    "c04.decide": "sc_decide_correct / sc_conflict_decide_correct / sc_algo_correct (verdict), "
                  "sc_witness_check_correct (sequence)",
    "c04.core": "sc_core_refutes_sound (sc_sub: heredity), sc_conflict_decide_correct",
}
TIMEOUT_S = 60.0
CHUNK = 200

BRUTE_MAX_N = 7          # c04.decide enumerates n! arrangements


# ------------------------------------------------------------------------------------------------ generators
def swap_walk(rng, alts, n, p_stay=0.0):
    """A single-crossing sequence of n distinct orders: start from a random order and repeatedly swap an
    adjacent pair that has not been swapped yet (each pair switches at most once along the walk)."""
    cur = rand_perm(rng, alts)
    seq = [list(cur)]
    used = set()
    while len(seq) < n:
        cands = [i for i in range(len(cur) - 1) if frozenset((cur[i], cur[i + 1])) not in used]
        if not cands:
            break
        k = rng.randint(1, 3) if rng.random() < 0.5 else 1      # several swaps between two voters
        for _ in range(k):
            cands = [i for i in range(len(cur) - 1) if frozenset((cur[i], cur[i + 1])) not in used]
            if not cands:
                break
            i = rng.choice(cands)
            used.add(frozenset((cur[i], cur[i + 1])))
            cur[i], cur[i + 1] = cur[i + 1], cur[i]
        if cur != seq[-1]:
            seq.append(list(cur))
    return seq


def star(rng, orders, m, k=2):
    """add k different adjacent-swap neighbours of one member of the sequence (score ties relative to any two
    reference voters are frequent; usually not single-crossing)"""
    base = rng.choice(orders)
    pos = list(range(m - 1))
    rng.shuffle(pos)
    added = 0
    for a in pos:
        o = list(base)
        o[a], o[a + 1] = o[a + 1], o[a]
        if o not in orders:
            orders.append(o)
            added += 1
            if added == k:
                break
    return orders


def max_chain(rng, alts):
    """a maximal single-crossing chain: single adjacent swaps of pairs not swapped before, until the start order is
    reversed (always m(m-1)/2 + 1 orders)"""
    cur = rand_perm(rng, alts)
    seq = [list(cur)]
    used = set()
    while True:
        cands = [i for i in range(len(cur) - 1) if frozenset((cur[i], cur[i + 1])) not in used]
        if not cands:
            return seq
        i = rng.choice(cands)
        used.add(frozenset((cur[i], cur[i + 1])))
        cur[i], cur[i + 1] = cur[i + 1], cur[i]
        seq.append(list(cur))


def sub_chain(rng, chain, n):
    idx = sorted(rng.sample(range(len(chain)), min(n, len(chain))))
    return [chain[i] for i in idx]


def stored_with_first_two(rng, chain, i, j, how):
    rest = [o for k, o in enumerate(chain) if k not in (i, j)]
    if how == 1:
        rest = rest[::-1]
    elif how == 2:
        rng.shuffle(rest)
    return [chain[i], chain[j]] + rest


def disagree(o1, o2):
    pos1 = {a: k for k, a in enumerate(o1)}
    pos2 = {a: k for k, a in enumerate(o2)}
    return {frozenset((a, b)) for a in o1 for b in o1 if a != b and (pos1[a] < pos1[b]) != (pos2[a] < pos2[b])}


def switchback(rng, chain, i, j):
    """chain c_0..c_L single-crossing, v1 = c_i, v2 = c_j (1 <= i < j): add an order past the end of the chain that
    switches BACK an (adjacent) pair which already switched between c_0 and c_i.  Every order taken alone is
    compatible with v1, v2 (the Kendall-tau distances to v1 and v2 are additive), the violation only shows in the
    verification of the whole sequence.  Returns the extra order or None."""
    before = disagree(chain[0], chain[i])
    last = chain[-1]
    cands = [k for k in range(len(last) - 1) if frozenset((last[k], last[k + 1])) in before]
    if not cands:
        return None
    k = rng.choice(cands)
    x = list(last)
    x[k], x[k + 1] = x[k + 1], x[k]
    return x if x not in chain else None


HUGE_IDS = [10 ** 18, 10 ** 18 + 1, 2 ** 64 + 1, 2 ** 63, 2 ** 64, 2 ** 31, 2 ** 32 + 1, 10 ** 30 + 7, 999999999999999989,
            2 ** 100, 2 ** 64 - 1, 2 ** 53 + 1]


def relabel(rl, c, mode="with0"):
    """injective relabelling of the alternatives of a case; the verdicts are invariant (theorem sc_relabel) but the
    case is judged afresh by the model anyway.  modes: with0 (0 + small ids), huge (0 + very large ids),
    small4m / smallmm (a random m-subset of range(0, 4m) / range(0, m*m): small NON-contiguous ids, where arithmetic
    encodings of pairs of ids such as a*m+b collide)"""
    pl = c["payload"]
    alts = pl[0]
    m = len(alts)
    if mode == "huge":
        pool = rl.sample(HUGE_IDS, min(m - 1, len(HUGE_IDS)))
        pool += rl.sample(range(1, 50), m - 1 - len(pool))
        new = [0] + pool
    elif mode == "small4m":
        new = rl.sample(range(0, 4 * m), m)
    elif mode == "smallmm":
        new = rl.sample(range(0, max(m * m, m + 1)), m)
    else:
        new = [0] + rl.sample(range(1, 3 * m + 2), m - 1)
    rl.shuffle(new)
    f = dict(zip(alts, new))
    pl[0] = [f[a] for a in alts]
    pl[1] = [[f[a] for a in o] for o in pl[1]]
    if c["op"] == "c04.core":
        pl[3] = [f[a] for a in pl[3]]
    c["tags"]["ids"] = mode


def fork(rng, alts, k):
    """near-miss negative: a chain c_0..c_k (k >= 1) plus two different adjacent-swap neighbours of its END c_k
    (pairs not switched before).  From the first voter c_0 the only incomparable conflict sets are those of the two
    neighbours, and they differ in exactly two pairs of alternatives."""
    full = max_chain(rng, alts)
    if len(full) < k + 3:
        return None
    start = rng.randint(0, len(full) - k - 3)
    ch = [list(o) for o in full[start:start + k + 1]]
    end = ch[-1]
    done = disagree(ch[0], end) if k >= 1 else set()
    cands = [i for i in range(len(end) - 1) if frozenset((end[i], end[i + 1])) not in done]
    rng.shuffle(cands)
    picks = []
    for i in cands:
        if all(abs(i - j) >= 2 for j in picks):
            picks.append(i)
        if len(picks) == 2:
            break
    if len(picks) < 2:
        return None
    out = ch
    for i in picks:
        x = list(end)
        x[i], x[i + 1] = x[i + 1], x[i]
        out = out + [x]
    return out


def mults(rng, n, heavy):
    if not heavy:
        return [1] * n
    return [rng.choice([1, 1, 2, 3, 7, 50]) for _ in range(n)]


def mk(alts, orders, mult=None, **tags):
    mult = mult or [1] * len(orders)
    tags.setdefault("n", len(orders))
    tags.setdefault("m", len(alts))
    return case("c04.decide", [list(alts), [list(o) for o in orders], list(mult)], **tags)


def storage_variants(rng, alts, orders, **tags):
    orders = [list(o) for o in orders]
    out = [mk(alts, orders, **dict(tags, storage="given"))]
    if len(orders) >= 2:
        out.append(mk(alts, orders[::-1], **dict(tags, storage="reversed")))
    if len(orders) >= 3:
        sh = list(orders)
        rng.shuffle(sh)
        out.append(mk(alts, sh, mults(rng, len(sh), True), **dict(tags, storage="shuffled")))
    return out


def extend_order(rng, core_order, extra):
    """core order over S extended to S + extra: the relative order of S is kept."""
    o = list(core_order)
    for x in extra:
        o.insert(rng.randint(0, len(o)), x)
    return o


NON_SC_CORES = None


def non_sc_cores():
    """small profiles that are not single-crossing (verdict confirmed by the model through c04.core on every use)"""
    return [
        # three cyclic shifts of 1,2,3 : every arrangement makes some pair switch twice
        ([1, 2, 3], [[1, 2, 3], [2, 3, 1], [3, 1, 2]]),
        # four orders over 4 alternatives, pairwise one swap away from 1234 (three leaves of a star)
        ([1, 2, 3, 4], [[1, 2, 3, 4], [2, 1, 3, 4], [1, 3, 2, 4], [1, 2, 4, 3]]),
        ([1, 2, 3, 4], [[2, 1, 3, 4], [1, 2, 4, 3], [2, 1, 4, 3], [1, 2, 3, 4], [1, 3, 2, 4]]),
    ]


def generate(tier, seed):
    rng = random.Random(1000003 * seed + 4)
    quick = tier == "quick"
    out = []
    # ---- self-contained cross-call-history cases first (fresh worker, so a failure caused by the history replays)
    for i in range(40):
        m = 3 + i % 4
        alts = list(range(0, m)) if i % 2 else list(range(1, m + 1))
        ch = sub_chain(rng, max_chain(rng, alts), 2 + i % 5)
        if i % 3 == 0:
            ch = star(rng, ch, m, 2)
        rng.shuffle(ch)
        out.append(mk(alts, ch, gen="history", hist=1))
    out.extend(session_cases(rng, quick))
    # ---- exhaustive m = 3: all 2^6 - 1 non-empty sets of orders, in EVERY storage order (1956 lists);
    #      alternatives 0,1,2 (id 0 included) and 1,2,3
    for alts3 in ([0, 1, 2], [1, 2, 3]):
        P3 = [list(p) for p in itertools.permutations(alts3)]
        for k in range(1, 7):
            for sub in itertools.combinations(P3, k):
                for st in itertools.permutations(sub):
                    out.append(mk(alts3, st, exh=1, storage="all"))
    # ---- exhaustive m = 4: every storage order for n <= 3 (thorough: n <= 4); three storage orders beyond
    alts4 = [1, 2, 3, 4]
    P4 = [list(p) for p in itertools.permutations(alts4)]
    nmax = 4 if quick else 5
    nall = 3 if quick else 4
    for k in range(1, nmax + 1):
        for sub in itertools.combinations(P4, k):
            if k <= nall:
                for st in itertools.permutations(sub):
                    out.append(mk(alts4, st, exh=1, storage="all"))
            else:
                out.extend(storage_variants(rng, alts4, sub, exh=1))
    for k, cnt in ((5, 600), (6, 300), (7, 100)) if quick else ((6, 4000), (7, 1500)):
        for _ in range(cnt):
            sub = rng.sample(P4, k)
            out.extend(storage_variants(rng, alts4, sub, sampled=1))
    # ---- random small: swap walks, shuffled, +- one off-sequence order; uniformly random sets
    nrand = 700 if quick else 8000
    for i in range(nrand):
        m = rng.randint(3, 6)
        alts = rng.sample(range(1, 40), m) if i % 3 == 0 else list(range(1, m + 1))
        n = rng.randint(2, 7)
        kind = i % 4
        if kind == 3:
            orders = []
            for _ in range(n):
                o = rand_perm(rng, alts)
                if o not in orders:
                    orders.append(o)
            tag = "random"
        else:
            orders = swap_walk(rng, alts, n if kind == 0 else max(2, n - 1))
            tag = "walk"
            if kind != 0:
                # one off-sequence order (may or may not destroy single-crossingness)
                for _ in range(20):
                    o = list(rng.choice(orders))
                    for _ in range(rng.randint(1, 3)):
                        a, b = rng.randrange(m), rng.randrange(m)
                        o[a], o[b] = o[b], o[a]
                    if o not in orders:
                        orders.append(o)
                        break
                tag = "walk+1"
            rng.shuffle(orders)
        out.append(mk(alts, orders, mults(rng, len(orders), i % 2 == 0), gen=tag))
        if i % 5 == 0 and len(orders) >= 2:
            out.append(mk(alts, orders[::-1], gen=tag, storage="reversed"))
    # ---- medium: 8 <= n <= 14, reference = conflict-set decider only (brute force infeasible)
    nmed = 150 if quick else 1500
    for i in range(nmed):
        m = rng.randint(4, 8)
        alts = list(range(1, m + 1))
        n = rng.randint(8, 14)
        orders = swap_walk(rng, alts, n)
        tag = "walk"
        if i % 2 == 1:
            for _ in range(20):
                o = list(rng.choice(orders))
                a = rng.randrange(m - 1)
                o[a], o[a + 1] = o[a + 1], o[a]
                if o not in orders:
                    orders.append(o)
                    break
            tag = "walk+1"
        rng.shuffle(orders)
        out.append(mk(alts, orders, mults(rng, len(orders), True), gen=tag, medium=1))
    # ---- stars: a sequence plus two neighbours of one member, n >= m and n < m, m up to 8
    nstar = 500 if quick else 5000
    for i in range(nstar):
        m = rng.randint(4, 8)
        alts = list(range(1, m + 1))
        n = rng.randint(2, 12)
        orders = star(rng, swap_walk(rng, alts, n), m, 2 if i % 3 else 3)
        if i % 2:
            rng.shuffle(orders)
        elif i % 4 == 0:
            orders = orders[::-1]          # the two tied neighbours become the reference voters v1, v2
        out.append(mk(alts, orders, mults(rng, len(orders), i % 2 == 0), gen="star"))
    # ---- m = 5: all sets of <= 2 orders, sampled sets of 3..7 orders
    alts5 = [1, 2, 3, 4, 5]
    P5 = [list(p) for p in itertools.permutations(alts5)]
    for k in (1, 2):
        for sub in itertools.combinations(P5, k):
            out.append(mk(alts5, sub, exh=1))
            if k == 2:
                out.append(mk(alts5, sub[::-1], exh=1, storage="reversed"))
    for _ in range(1500 if quick else 20000):
        sub = rng.sample(P5, rng.randint(3, 7))
        out.append(mk(alts5, sub, gen="random"))
    # ---- chains stored with the first stored order in the middle: every choice of the first two stored orders for
    #      chains of <= 7 orders (maximal chains of 4 alternatives have 7), sampled choices beyond; sub-chains give
    #      n < m and n >= m and tails of different lengths on the two sides of the first stored order
    nchain = 9 if quick else 120
    for m in (3, 4, 5, 6, 7, 8):
        alts = list(range(1, m + 1)) if m % 2 == 0 else list(range(0, m))
        for ci in range(nchain if m <= 6 else max(2, nchain // 3)):
            full = max_chain(rng, alts)
            sizes = sorted(set([3, 4, 5, 6, 7, m - 1, m, m + 1, len(full)]))
            for nn in sizes:
                if nn < 3 or nn > len(full):
                    continue
                ch = full if nn == len(full) else sub_chain(rng, full, nn)
                L = len(ch)
                if L <= 7:
                    choices = [(i, j) for i in range(L) for j in range(L) if i != j]
                else:
                    choices = [(rng.randint(1, L - 2), None) for _ in range(10)]
                    choices = [(i, rng.choice([k for k in range(L) if k != i])) for i, _ in choices]
                for (i, j) in choices:
                    st = stored_with_first_two(rng, ch, i, j, (i + j + ci) % 3)
                    out.append(mk(alts, st, mults(rng, L, (i + j) % 2 == 0), gen="chain-mid",
                                  first_mid=int(0 < i < L - 1), tails="%d/%d" % (min(i, L - 1 - i), max(i, L - 1 - i))))
    # ---- switch-backs: not single-crossing although every order is compatible with the first two stored orders
    nsb = 600 if quick else 6000
    made = 0
    tries = 0
    while made < nsb and tries < 20 * nsb:
        tries += 1
        m = rng.randint(3, 7)
        alts = list(range(1, m + 1))
        full = max_chain(rng, alts)
        L = rng.randint(3, min(len(full) - 1, 9))
        # a prefix-free window of the maximal chain, so that there is room past its end
        ch = sub_chain(rng, full[:-1], L)
        if len(ch) < 3:
            continue
        i = rng.randint(1, len(ch) - 2)
        j = rng.randint(i + 1, len(ch) - 1)
        x = switchback(rng, ch, i, j)
        if x is None:
            continue
        st = stored_with_first_two(rng, ch + [x], i, j, tries % 3)
        if tries % 2:
            # mirror image: v1 = c_j, v2 = c_i; the extra order is then 'before v1', the pair switches 'after v2'
            st[0], st[1] = st[1], st[0]
        out.append(mk(alts, st, mults(rng, len(st), tries % 2 == 0), gen="switchback"))
        made += 1
    # ---- the n < m path with both verdicts: m in 5..8, 3 <= n < m
    nlt = 1500 if quick else 15000
    for i in range(nlt):
        m = rng.randint(5, 8)
        alts = list(range(1, m + 1))
        n = rng.randint(3, m - 1)
        kind = i % 4
        if kind == 0:
            orders = star(rng, swap_walk(rng, alts, n - 1), m, 1)[:n]
            tag = "walk+1"
        elif kind == 1:
            orders = star(rng, swap_walk(rng, alts, max(2, n - 2)), m, 2)[:n]
            tag = "star"
        elif kind == 2:
            # orders a few adjacent swaps away from a common base order
            base = rand_perm(rng, alts)
            orders = [base]
            for _ in range(40):
                if len(orders) >= n:
                    break
                o = list(base)
                for _ in range(rng.randint(1, 3)):
                    a = rng.randrange(m - 1)
                    o[a], o[a + 1] = o[a + 1], o[a]
                if o not in orders:
                    orders.append(o)
            tag = "near"
        else:
            orders = swap_walk(rng, alts, n)
            tag = "walk"
        orders = [list(o) for o in orders]
        if i % 3 == 0:
            rng.shuffle(orders)
        elif i % 3 == 1:
            orders = orders[::-1]
        out.append(mk(alts, orders, mults(rng, len(orders), i % 2 == 0), gen=tag, lt=1))
    # ---- forks (near-miss negatives), m = 5..8, always with small non-contiguous ids
    nfork = 1800 if quick else 25000
    made = 0
    while made < nfork:
        m = rng.randint(5, 8)
        alts = list(range(1, m + 1))
        orders = fork(rng, alts, rng.randint(1, 5))
        if orders is None:
            continue
        how = made % 3
        if how == 1:
            orders = orders[::-1]
        elif how == 2:
            rng.shuffle(orders)
        out.append(mk(alts, orders, mults(rng, len(orders), made % 2 == 0), gen="fork"))
        made += 1
    # ---- large planted single-crossing profiles: witness check at full size
    nlarge = 60 if quick else 500
    for i in range(nlarge):
        m = rng.randint(7, 12)
        alts = rng.sample(range(1, 100), m)
        n = rng.randint(15, 40)
        orders = swap_walk(rng, alts, n)
        rng.shuffle(orders)
        out.append(mk(alts, orders, mults(rng, len(orders), True), gen="planted", large=1))
    # ---- large negatives: planted profile + embedded refuted core
    nneg = 60 if quick else 500
    cores = non_sc_cores()
    for i in range(nneg):
        m = rng.randint(6, 12)
        alts = list(range(1, m + 1))
        rng.shuffle(alts)
        core_alts, core_orders = cores[i % len(cores)]
        # relabel the core into the first alternatives of alts
        S = alts[:len(core_alts)]
        lab = dict(zip(core_alts, S))
        extra = alts[len(core_alts):]
        emb = [extend_order(rng, [lab[a] for a in o], extra) for o in core_orders]
        n = rng.randint(6, 30)
        planted = [o for o in swap_walk(rng, alts, n) if o not in emb]
        orders = planted + emb
        flags = [0] * len(planted) + [1] * len(emb)
        idx = list(range(len(orders)))
        rng.shuffle(idx)
        orders = [orders[j] for j in idx]
        flags = [flags[j] for j in idx]
        out.append(case("c04.core", [alts, orders, mults(rng, len(orders), True), S, flags],
                        gen="neg-core", large=1, n=len(orders), m=m))
    for k, cs_ in enumerate(out):
        if cs_["op"] != "c04.session" and (cs_["tags"].get("gen") or k % 8 == 0):
            cs_["tags"]["helper"] = 1
    # ---- alternative ids: every structured / random case is relabelled with probability ~0.5 to an id set that
    #      contains 0 (falsy in Python), and ~8 % of them to a set with huge ids (10**18, 2**64 + 1, ...)
    rl = random.Random(1000003 * seed + 404)
    for cs_ in out:
        g = cs_["tags"].get("gen")
        if g and g not in ("corpus", "session"):
            u = rl.random()
            if g == "fork":
                relabel(rl, cs_, "small4m" if u < 0.6 else "smallmm")
            elif u < 0.22:
                relabel(rl, cs_, "with0")
            elif u < 0.28:
                relabel(rl, cs_, "huge")
            elif u < 0.48:
                relabel(rl, cs_, "small4m")
            elif u < 0.62:
                relabel(rl, cs_, "smallmm")
    # ---- cross-call history: ~15 % of the cases first call kendall_tau_distance(..., normalise=True) on the first two
    #      stored orders (both argument orders) and on a few other pairs, in the same worker call
    for cs_ in out:
        if cs_["op"] != "c04.session" and rl.random() < 0.15 and len(cs_["payload"][1]) >= 2 and len(cs_["payload"][0]) >= 2:
            cs_["tags"]["hist"] = 1
    return out


# ------------------------------------------------------------------------------------------------ implementation
# ------------------------------------------------------------------------------------------------ sessions
# A session = a sequence of instances built and questioned inside ONE worker call (lessons of round 5: purity,
# aliasing of results, object lifetime).  payload = [segments]; segment = [alts, orders, mult, actions, extras, flags]
#   actions: 0 ask is_single_crossing    1 ask is_single_crossing_conflict_sets
#            2 append_order(next extra)  (a new distinct order: the profile grows)
#            3 poison, in place, the sequence returned by the last is_single_crossing call
#            4 call flatten_strict / full_profile / vote_map / infer_type and poison what they return
#            5 recompute_cardinality_param()
#            6 append_order(first stored order)  (multiplicity + 1: same set of distinct orders)
#   flags:   1 multiplicity dict and alternatives_name in another key order than orders / ascending ids
#            2 multiplicities and ids are numpy.int64
# Every answer is judged against the model of the profile as it should be at that point, and the semantic content of
# the instance (common.snapshot) must be the same after every question / read-only call.
A_SC, A_CS, A_APPEND, A_POISON, A_VIEWS, A_RECOMP, A_BUMP = 0, 1, 2, 3, 4, 5, 6


def mk_session(segments, **tags):
    tags.setdefault("gen", "session")
    return case("c04.session", [segments], **tags)


def _profiles_at_asks(seg):
    """[(kind, profile)] for the ask actions of a segment, profile = distinct orders as they should be then"""
    alts, orders, mult, actions, extras, flags = seg
    prof = [list(o) for o in orders]
    k = 0
    out = []
    for a in actions:
        if a == A_APPEND:
            if k < len(extras):
                if list(extras[k]) not in prof:
                    prof = prof + [list(extras[k])]
                k += 1
        elif a in (A_SC, A_CS):
            out.append((a, [list(o) for o in prof]))
    return out


def _build(seg):
    alts, orders, mult, actions, extras, flags = seg
    if flags & 2:
        import numpy as np
        cv = lambda x: np.int64(x) if -2 ** 63 <= x < 2 ** 63 else x
    else:
        cv = lambda x: x
    reg = list(alts)[::-1] if flags & 1 else list(alts)
    inst = ordinal_instance([([[cv(a)] for a in o], cv(mu)) for o, mu in zip(orders, mult)], data_type="soc",
                            alts=[cv(a) for a in reg])
    if flags & 1:
        items = list(inst.multiplicity.items())[::-1]
        inst.multiplicity = dict(items)
    return inst, cv


def _ask_sc(SCm, inst):
    res = SCm.is_single_crossing(inst)
    if not (isinstance(res, tuple) and len(res) == 2):
        raise RuntimeError("is_single_crossing returned %r" % (res,))
    verdict, seq = res
    if type(verdict).__name__ not in ("bool", "bool_"):
        raise RuntimeError("is_single_crossing verdict is not a Boolean: %r" % (verdict,))
    if verdict and seq is None:
        raise RuntimeError("is_single_crossing answered True without a sequence")
    return bool(verdict), seq


def impl_session(c):
    from preflibtools.properties.subdomains.ordinal import singlecrossing as SCm
    from .common import snapshot, snap_diff
    out = []
    for seg in c["payload"][0]:
        alts, orders, mult, actions, extras, flags = seg
        inst, cv = _build(seg)
        obs = []
        last_seq = None
        k = 0
        for a in actions:
            if a == A_SC:
                before = snapshot(inst)
                verdict, seq = _ask_sc(SCm, inst)
                d = snap_diff(before, snapshot(inst))
                last_seq = seq
                obs.append([0, int(verdict), [[int(x) for x in o] for o in seq] if verdict else [], d or ""])
            elif a == A_CS:
                before = snapshot(inst)
                cvd = SCm.is_single_crossing_conflict_sets(inst)
                if type(cvd).__name__ not in ("bool", "bool_"):
                    raise RuntimeError("is_single_crossing_conflict_sets returned %r" % (cvd,))
                d = snap_diff(before, snapshot(inst))
                obs.append([1, int(bool(cvd)), [], d or ""])
            elif a == A_APPEND:
                if k < len(extras):
                    inst.append_order([cv(x) for x in extras[k]])
                    k += 1
            elif a == A_BUMP:
                inst.append_order([cv(x) for x in orders[0]])
            elif a == A_POISON:
                if isinstance(last_seq, list):
                    before = snapshot(inst)
                    last_seq.reverse()
                    last_seq.append(("junk",))
                    if len(last_seq) > 1:
                        del last_seq[0]
                    d = snap_diff(before, snapshot(inst))
                    if d:
                        obs.append([9, 0, [], "poisoning the returned sequence changed the instance: " + d])
            elif a == A_VIEWS:
                before = snapshot(inst)
                fs = inst.flatten_strict()
                if isinstance(fs, list):
                    fs.reverse()
                    fs.append((("junk",), 1))
                    del fs[0]
                fp = inst.full_profile()
                if isinstance(fp, list):
                    fp.reverse()
                    fp.append("junk")
                vm = inst.vote_map()
                if isinstance(vm, dict):
                    vm.clear()
                inst.infer_type()
                d = snap_diff(before, snapshot(inst))
                if d:
                    obs.append([9, 0, [], "read-only views (or poisoning what they return) changed the instance: " + d])
            elif a == A_RECOMP:
                inst.recompute_cardinality_param()
        out.append(obs)
    return {"session": out}


def _plan_session(c, r):
    plan = []
    for si, seg in enumerate(c["payload"][0]):
        alts = seg[0]
        asks = _profiles_at_asks(seg)
        obs = []
        if isinstance(r, dict) and "session" in r and si < len(r["session"]):
            obs = [o for o in r["session"][si] if o[0] in (0, 1)]
        for ai, (kind, prof) in enumerate(asks):
            if len(prof) <= BRUTE_MAX_N:
                plan.append(("s%da%d decide" % (si, ai), "c04.decide", [alts, prof]))
            plan.append(("s%da%d cdecide" % (si, ai), "c04.cdecide", [alts, prof]))
            if kind == A_SC:
                plan.append(("s%da%d algo" % (si, ai), "c04.algo", [alts, prof]))
                if ai < len(obs) and obs[ai][0] == 0 and obs[ai][1] == 1:
                    plan.append(("s%da%d check" % (si, ai), "c04.check", [alts, prof, obs[ai][2]]))
    return plan


def judge_session(c, r, mres):
    m = {k: v for (k, _, _), v in zip(_plan_session(c, r), mres)}
    if not (isinstance(r, dict) and "session" in r):
        return {"kind": "exception", "reason": "unexpected result %r" % (r,)}
    for si, seg in enumerate(c["payload"][0]):
        asks = _profiles_at_asks(seg)
        allobs = r["session"][si]
        for o in allobs:
            if o[0] == 9:
                return "segment %d: %s" % (si, o[3])
        obs = [o for o in allobs if o[0] in (0, 1)]
        if len(obs) != len(asks):
            return {"kind": "broken-correspondence", "reason": "session adapter: %d answers for %d questions" % (len(obs), len(asks))}
        for ai, ((kind, prof), o) in enumerate(zip(asks, obs)):
            key = "s%da%d " % (si, ai)
            expected = m.get(key + "decide", m[key + "cdecide"])
            if m[key + "cdecide"] != expected:
                return {"kind": "broken-correspondence", "reason": "the two proved references disagree"}
            where = "segment %d, question %d (%s) on the profile %r" % (
                si, ai, "is_single_crossing" if kind == A_SC else "is_single_crossing_conflict_sets", prof)
            if kind == A_SC:
                al = m[key + "algo"]
                if al[0] != 0 or (1 if al[1] else 0) != expected:
                    return {"kind": "broken-correspondence", "reason": "model: mirror sc_algo disagrees with the references"}
            if o[1] != expected:
                return "%s: answer %s, the reference says %s (earlier calls in the same process / on the same object " \
                       "must not matter)" % (where, bool(o[1]), bool(expected))
            if kind == A_SC and o[1] == 1 and m.get(key + "check") != 1:
                return "%s: answers True but the returned sequence %r is rejected by the verified checker" % (where, o[2])
            if o[3]:
                return "%s: the question modified the instance it was asked about: %s" % (where, o[3])
    return None


def tie_profile(rng, alts, n):
    """n >= m distinct orders whose is_single_crossing run ends on the tie-rejection path: v2 = v1 with its last
    adjacent pair swapped, two other adjacent-swap neighbours of v1 (both get score -1), then a walk beyond v2"""
    m = len(alts)
    v1 = rand_perm(rng, alts)
    v2 = list(v1)
    v2[m - 2], v2[m - 1] = v2[m - 1], v2[m - 2]
    pos = rng.sample(range(m - 2), 2)
    nb = []
    for i in pos:
        x = list(v1)
        x[i], x[i + 1] = x[i + 1], x[i]
        nb.append(x)
    out = [v1, v2] + nb
    cur = list(v2)
    used = {frozenset((v1[m - 2], v1[m - 1]))}
    while len(out) < n:
        cands = [i for i in range(m - 1) if frozenset((cur[i], cur[i + 1])) not in used]
        if not cands:
            break
        i = rng.choice(cands)
        used.add(frozenset((cur[i], cur[i + 1])))
        cur[i], cur[i + 1] = cur[i + 1], cur[i]
        if cur not in out:
            out.append(list(cur))
    tail = out[2:]
    rng.shuffle(tail)
    return out[:2] + tail


def session_cases(rng, quick):
    out = []
    one_object = [[1, 0, 1, 0], [0, 1, 0, 1], [1, 1, 0, 0], [0, 0, 1, 1], [0, 3, 0, 1, 3, 0], [1, 4, 0, 5, 1, 0],
                  [1, 2, 0, 1, 0], [0, 2, 1, 0, 1], [1, 0, 2, 1, 0], [1, 6, 1, 0, 5, 0], [0, 4, 3, 1, 2, 0, 1],
                  [1, 1, 2, 2, 0, 1]]
    nobj = 700 if quick else 7000
    for i in range(nobj):
        m = rng.randint(3, 7)
        alts = list(range(0, m)) if i % 2 else list(range(1, m + 1))
        kind = i % 5
        full = max_chain(rng, alts)
        if kind == 0:
            orders = [rand_perm(rng, alts)]                       # a one-order profile: True, and True again
        elif kind in (1, 2):
            orders = sub_chain(rng, full, rng.randint(2, min(len(full), m + 2)))
        elif kind == 3:
            orders = star(rng, sub_chain(rng, full, rng.randint(2, 5)), m, 2)
        else:
            orders = fork(rng, alts, rng.randint(1, 3)) or sub_chain(rng, full, 3)
        orders = [list(o) for o in orders]
        if i % 3:
            rng.shuffle(orders)
        # extras: one order continuing the chain (stays single-crossing when orders is a prefix-like sub-chain) and one
        # neighbour of a member (usually destroys it)
        extras = []
        for cand in (full[-1], star(rng, [list(o) for o in orders], m, 1)[-1], rand_perm(rng, alts)):
            if list(cand) not in orders and list(cand) not in extras:
                extras.append(list(cand))
        acts = one_object[i % len(one_object)]
        flags = (1 if i % 4 == 1 else 0) | (2 if i % 7 == 3 else 0)
        out.append(mk_session([[alts, orders, mults(rng, len(orders), i % 2 == 0), acts, extras, flags]],
                              skind="one-object"))
    # sequences of different instances in one call: first run ends on a rare path, then the call under test
    nseq = 500 if quick else 5000
    for i in range(nseq):
        m = rng.randint(4, 7)
        alts = list(range(0, m)) if i % 2 else list(range(1, m + 1))
        kind = i % 4
        if kind in (0, 1):
            a_orders = tie_profile(rng, alts, rng.randint(m, m + 3))     # n >= m, ends on the tie rejection
            tagk = "tie-then-sc"
        elif kind == 2:
            a_orders = [rand_perm(rng, alts) for _ in range(m + 1)]      # usually rejected by the distance tests
            a_orders = [o for j, o in enumerate(a_orders) if o not in a_orders[:j]]
            tagk = "random-then-sc"
        else:
            a_orders = fork(rng, alts, rng.randint(2, 4)) or tie_profile(rng, alts, m)
            tagk = "fork-then-sc"
        full = max_chain(rng, alts)
        b_orders = sub_chain(rng, full, rng.randint(m, min(len(full), m + 4)))
        rng.shuffle(b_orders)
        segs = [[alts, a_orders, [1] * len(a_orders), [0, 1] if i % 3 else [0], [], 0],
                [alts, b_orders, mults(rng, len(b_orders), True), [0, 1, 0], [], 1 if i % 5 == 0 else 0]]
        if i % 6 == 0:
            c_orders = sub_chain(rng, full, rng.randint(2, m - 1))      # n < m afterwards
            segs.append([alts, c_orders, [1] * len(c_orders), [1, 0], [], 0])
        out.append(mk_session(segs, skind=tagk))
    return out


def impl(c):
    if c["op"] == "c04.session":
        return impl_session(c)
    from preflibtools.properties.subdomains.ordinal import singlecrossing as SCm
    pl = c["payload"]
    alts, orders, mult = pl[0], pl[1], pl[2]
    inst = ordinal_instance([(strict(o), mu) for o, mu in zip(orders, mult)], data_type="soc", alts=alts)
    if c["tags"].get("hist"):
        # cross-call history through the public API (results not judged here: they belong to C20); a later plain
        # call made by the recognisers must not be influenced by it
        from preflibtools.properties.distances import kendall_tau_distance as _kt
        ts = [tuple(o) for o in orders]
        pairs_ = [(ts[0], ts[1]), (ts[1], ts[0])]
        for t in ts[2:5]:
            pairs_ += [(ts[0], t), (ts[1], t), (t, ts[0])]
        if len(ts) >= 4:
            pairs_ += [(ts[2], ts[3]), (ts[-1], ts[-2])]
        for a_, b_ in pairs_:
            try:
                _kt(a_, b_, normalise=True)
            except Exception:
                pass
    salt = common.salt_of(pl[:3])
    if salt % 3 == 0:       # call / in-place edit / call: the same object held a decoy profile of the same shape first
        inst, _ = common.prime_stale(inst, [SCm.is_single_crossing, SCm.is_single_crossing_conflict_sets], salt // 3)
    res = SCm.is_single_crossing(inst)
    if not (isinstance(res, tuple) and len(res) == 2):
        return {"crash": "is_single_crossing returned %r" % (res,)}
    verdict, seq = res
    if not isinstance(verdict, bool):
        return {"crash": "is_single_crossing verdict is not a bool: %r" % (verdict,)}
    if verdict:
        if seq is None:
            return {"crash": "is_single_crossing answered True without a sequence"}
        seq = [[int(a) for a in o] for o in seq]
    else:
        seq = []
    inst2 = ordinal_instance([(strict(o), mu) for o, mu in zip(orders, mult)], data_type="soc", alts=alts)
    if salt % 3 == 1:
        inst2, _ = common.prime_stale(inst2, [SCm.is_single_crossing_conflict_sets, SCm.is_single_crossing], salt // 3)
    cv = SCm.is_single_crossing_conflict_sets(inst2)
    if not isinstance(cv, bool):
        return {"crash": "is_single_crossing_conflict_sets returned %r" % (cv,)}
    cs = int(cv)
    # the private verification pass on the stored order: measured only (not an observable of the property; a
    # missing / changed helper is never an alarm)
    oc = -1
    if c["tags"].get("helper"):
        fn = getattr(SCm, "_is_ordered_profile_single_crossing", None)
        if fn is not None:
            try:
                hv = fn([tuple(o) for o in orders])
                if isinstance(hv, bool):
                    oc = int(hv)
            except Exception:
                oc = -1
    return [int(verdict), seq, cs, oc]


def _plan(c, r):
    """named oracle requests for a case (the judge and stats address the answers by name)"""
    pl = c["payload"]
    alts, orders = pl[0], pl[1]
    plan = []
    # reference verdict
    if c["op"] == "c04.core":
        plan.append(("core", "c04.core", [alts, orders, pl[3], pl[4]]))
    elif len(orders) <= BRUTE_MAX_N:
        plan.append(("decide", "c04.decide", [alts, orders]))
    # second reference (polynomial, proved equivalent): the only one for n > 7, else a cross-check of the model
    plan.append(("cdecide", "c04.cdecide", [alts, orders]))
    # witness
    if isinstance(r, list) and r[0] == 1:
        plan.append(("check", "c04.check", [alts, orders, r[1]]))
    # the mirror of is_single_crossing itself (Model/SCAlgo.v; theorems sc_algo_sound / sc_algo_complete)
    plan.append(("algo", "c04.algo", [alts, orders]))
    # mirror of the verification pass vs the sequence checker on the stored order (theorem ordered_check_correct)
    if c["tags"].get("helper"):
        plan.append(("csalgo", "c04.csalgo", [orders]))      # literal mirror of is_single_crossing_conflict_sets
        plan.append(("ordered", "c04.ordered", [orders]))
        plan.append(("seqcheck", "c04.seqcheck", [alts, orders]))
    return plan


def oracle_requests(c, r):
    if c["op"] == "c04.session":
        return [(op, payload) for _, op, payload in _plan_session(c, r)]
    return [(op, payload) for _, op, payload in _plan(c, r)]


def _named(c, r, mres):
    return {k: v for (k, _, _), v in zip(_plan(c, r), mres)}


def judge(c, r, mres):
    if c["op"] == "c04.session":
        return judge_session(c, r, mres)
    m = _named(c, r, mres)
    cref = m["cdecide"]
    if c["op"] == "c04.core":
        if m["core"] != 1:
            return {"kind": "broken-correspondence",
                    "reason": "generator error: the embedded core is not refuted by the model"}
        expected = 0
    else:
        expected = m.get("decide", cref)
    if cref != expected:
        return {"kind": "broken-correspondence",
                "reason": "the two proved references disagree (decide/core says SC=%d, cdecide %d)" % (expected, cref)}
    if "csalgo" in m and m["csalgo"] != cref:
        return {"kind": "broken-correspondence",
                "reason": "model: conflict_sets_algo and sc_conflict_decide disagree (conflict_sets_algo_eq)"}
    if "ordered" in m and m["ordered"] != m["seqcheck"]:
        return {"kind": "broken-correspondence",
                "reason": "model: ordered_check and sc_seq_check disagree on the stored order (ordered_check_correct)"}
    algo = m["algo"]
    if algo[0] != 0:
        return {"kind": "broken-correspondence",
                "reason": "model: the mirror sc_algo raises IndexError on a well-formed profile (sc_algo_no_error)"}
    algo_verdict = 1 if algo[1] else 0
    if algo_verdict != expected:
        return {"kind": "broken-correspondence",
                "reason": "model: the mirror sc_algo answers %d, the proved references %d (sc_algo_sound / "
                          "sc_algo_complete)" % (algo_verdict, expected)}
    verdict, seq, cs = r[0], r[1], r[2]
    if verdict != expected:
        return ("is_single_crossing answers %s, the reference (theorem sc_decide_correct / "
                "sc_conflict_decide_correct / sc_core_refutes_sound) says %s" % (bool(verdict), bool(expected)))
    if verdict == 1:
        if m["check"] != 1:
            return ("is_single_crossing answers True but the returned sequence is rejected by the verified checker "
                    "(sc_witness_check_correct): it must contain every distinct order exactly once and let every "
                    "pair switch at most once; sequence = %r" % (seq,))
    if cs != expected:
        return ("is_single_crossing_conflict_sets answers %s, the reference says %s" % (bool(cs), bool(expected)))
    return None


def nontrivial(c, r, m):
    if c["op"] == "c04.session":
        return any(len(seg[1]) >= 2 for seg in c["payload"][0])
    return len(c["payload"][1]) >= 3


def _bucket(n):
    return str(n) if n <= 7 else ("8-14" if n <= 14 else ">14")


def stats(c, r, m):
    if c["op"] == "c04.session":
        lab = ["session " + str(c["tags"].get("skind")), "session segments=%d" % len(c["payload"][0])]
        if isinstance(r, dict) and "session" in r:
            for seg, obs in zip(c["payload"][0], r["session"]):
                for o in obs:
                    if o[0] in (0, 1):
                        lab.append("session answer %s %s" % ("is_single_crossing" if o[0] == 0 else "conflict_sets",
                                                              "SC" if o[1] else "notSC"))
                if seg[5] & 1:
                    lab.append("session: multiplicity / names key order decoupled")
                if seg[5] & 2:
                    lab.append("session: numpy.int64 ids and multiplicities")
                if A_APPEND in seg[3]:
                    lab.append("session: append between questions")
                if A_POISON in seg[3] or A_VIEWS in seg[3]:
                    lab.append("session: returned objects poisoned")
        return lab
    pl = c["payload"]
    n, mm = len(pl[1]), len(pl[0])
    v = "SC" if (isinstance(r, list) and r[0] == 1) else "notSC"
    path = "n<m" if n < mm else "n>=m"
    lab = [f"verdict {v}", f"path {path} {v}", f"n={_bucket(n)}", f"m={mm if mm <= 6 else '>6'}",
           "gen " + str(c["tags"].get("gen", "exhaustive" if c["tags"].get("exh") else "sampled-m4"))]
    g = c["tags"].get("gen")
    if g in ("chain-mid", "switchback", "star", "walk+1", "neg-core", "near", "fork"):
        lab.append(f"gen {g} {v} {path}")
    if g == "chain-mid":
        lab.append("chain-mid first stored %s, %s" % ("in the middle" if c["tags"].get("first_mid") else "at an end", path))
        lab.append("chain-mid tails " + ("equal" if len(set(c["tags"]["tails"].split("/"))) == 1 else "different"))
    if c["tags"].get("storage") == "all":
        lab.append("every storage order, m=%d n=%d" % (mm, n))
    if isinstance(r, list):
        mm0 = _named(c, r, m)
        al = mm0.get("algo")
        if isinstance(al, list) and al[0] == 0:
            if al[1] and r[0] == 1:
                lab.append("mirror sc_algo: returned sequence %s" % ("identical" if al[1][0] == r[1] else "DIFFERENT (both valid)"))
            elif not al[1] and r[0] == 0:
                lab.append("mirror sc_algo: both answer False")
            else:
                lab.append("mirror sc_algo: verdict differs from the implementation")
        lab.append("conflict_sets compared")
        if r[3] != -1:
            mm_ = _named(c, r, m)
            lab.append("info: _is_ordered_profile_single_crossing(stored order) %s sc_seq_check [%s]"
                       % ("==" if r[3] == mm_.get("seqcheck") else "!=", "accepted" if mm_.get("seqcheck") else "rejected"))
    lab.append("ids: " + ("contain 0" if 0 in pl[0] else "all positive") + (", huge (>= 2**31)" if max(pl[0]) >= 2 ** 31 else ""))
    lab.append("ids mode: " + str(c["tags"].get("ids", "as generated")))
    if c["tags"].get("hist"):
        lab.append("history: kendall_tau_distance(normalise=True) called first, verdict " + v)
    if any(x > 1 for x in pl[2]):
        lab.append("multiplicities > 1")
    return lab


def describe(c):
    if c["op"] == "c04.session":
        return {"segments (alts, orders, multiplicities, actions, appended orders, flags)": c["payload"][0],
                "actions": "0 is_single_crossing, 1 conflict_sets, 2 append_order(next extra), 3 poison returned "
                           "sequence, 4 views + poison, 5 recompute_cardinality_param, 6 append first order again"}
    pl = c["payload"]
    d = {"alternatives": pl[0], "orders (storage order)": pl[1], "multiplicities": pl[2]}
    if c["op"] == "c04.core":
        d["core alternatives"] = pl[3]
        d["core voters (mask)"] = pl[4]
    return d


def shrink(c):
    if c["op"] == "c04.session":
        segs = c["payload"][0]
        for i in range(len(segs) - 1):
            yield dict(c, payload=[segs[:i] + segs[i + 1:]])
        for i, seg in enumerate(segs):
            acts = seg[3]
            for j in range(len(acts)):
                if acts[j] != A_APPEND:
                    yield dict(c, payload=[segs[:i] + [seg[:3] + [acts[:j] + acts[j + 1:]] + seg[4:]] + segs[i + 1:]])
        return
    pl = c["payload"]
    alts, orders, mult = pl[0], pl[1], pl[2]
    if c["op"] == "c04.core":
        # drop voters outside the core
        for i in range(len(orders)):
            if pl[4][i] == 0:
                yield dict(c, payload=[alts, orders[:i] + orders[i + 1:], mult[:i] + mult[i + 1:], pl[3],
                                       pl[4][:i] + pl[4][i + 1:]])
        return
    for i in range(len(orders)):
        yield dict(c, payload=[alts, orders[:i] + orders[i + 1:], mult[:i] + mult[i + 1:]])
    if len(alts) > 2:
        for x in alts:
            na = [a for a in alts if a != x]
            no, nm = [], []
            for o, mu in zip(orders, mult):
                oo = [a for a in o if a != x]
                if oo not in no:
                    no.append(oo)
                    nm.append(mu)
            yield dict(c, payload=[na, no, nm])
    if any(mu != 1 for mu in mult):
        yield dict(c, payload=[alts, orders, [1] * len(orders)])
