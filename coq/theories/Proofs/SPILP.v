(* Proofs/SPILP.v — the integer programme of is_single_peaked_ILP encodes the consecutive-ones property of the
   matrix of sp_cons_ones_matrix, hence (Proofs/SP.v: sp_matrix_C1P) weak-order single-peakedness.

   What is modelled: the 0/1 variables left_of_vars[a1][a2] (a function L on column indices) and the three
   families of constraints that involve only them:
     sp_ILP_total_cstr      for a1 < a2 < m:              L a1 a2 + L a2 a1 == 1
     sp_ILP_trans_cstr      for a1 < a2 < a3 < m:         the six  L x y + L y z - 1 <= L x z
     sp_ILP_cons_ones_cstr  for every row, ones i <> j, zero k:   L i k + L k j <= 1  and  L j k + L k i <= 1
   Not modelled: the integer position variables and sp_ILP_pos_cstr (they only force pos to be the rank in the
   linear order L, which exists for every total transitive L and does not constrain L), CBC itself, and the
   reading of the axis from pos (the harness sends the returned axis through the verified checker).
   So the theorem says: a solver that answers "feasible" exactly when the constraints are satisfiable makes
   is_single_peaked_ILP decide single-peakedness; it says nothing about CBC. *)
From Coq Require Import List Arith NArith Bool Lia Permutation Sorted.
From PrefVerif Require Import Lib.Val Lib.Perms Lib.Contig Model.SP Proofs.SP.
Import ListNotations.

Definition b2n (b : bool) : nat := if b then 1 else 0.
Definition left_of := nat -> nat -> bool.

Definition ilp_total (m : nat) (L : left_of) : Prop :=
  forall a1 a2, a1 < a2 -> a2 < m -> b2n (L a1 a2) + b2n (L a2 a1) = 1.
(* L x y + L y z - 1 <= L x z  (truncated subtraction: same truth value, the right-hand side is >= 0) *)
Definition ilp_trans1 (L : left_of) (x y z : nat) : Prop := b2n (L x y) + b2n (L y z) - 1 <= b2n (L x z).
Definition ilp_trans (m : nat) (L : left_of) : Prop :=
  forall a1 a2 a3, a1 < a2 -> a2 < a3 -> a3 < m ->
    ilp_trans1 L a1 a2 a3 /\ ilp_trans1 L a1 a3 a2 /\ ilp_trans1 L a2 a1 a3 /\
    ilp_trans1 L a2 a3 a1 /\ ilp_trans1 L a3 a1 a2 /\ ilp_trans1 L a3 a2 a1.
Definition ilp_row (L : left_of) (row : list bool) : Prop :=
  forall i j k, i < length row -> j < length row -> k < length row -> i <> j ->
    nth i row false = true -> nth j row false = true -> nth k row false = false ->
    b2n (L i k) + b2n (L k j) <= 1 /\ b2n (L j k) + b2n (L k i) <= 1.
Definition ilp_feasible (m : nat) (rows : list (list bool)) : Prop :=
  exists L, ilp_total m L /\ ilp_trans m L /\ Forall (ilp_row L) rows.

(* ---------------------------------------------------------------------------------------------- *)
(* consequences of totality and transitivity                                                       *)

Lemma ilp_total_neg m L x y : ilp_total m L -> x < m -> y < m -> x <> y -> L x y = negb (L y x).
Proof.
  intros Ht Hx Hy Hne. destruct (Nat.lt_ge_cases x y) as [Hlt|Hge].
  - specialize (Ht x y Hlt Hy). destruct (L x y), (L y x); simpl in *; try reflexivity; lia.
  - assert (Hlt : y < x) by lia. specialize (Ht y x Hlt Hx).
    destruct (L x y), (L y x); simpl in *; try reflexivity; lia.
Qed.

Lemma ilp_trans_all m L x y z : ilp_trans m L -> x < m -> y < m -> z < m ->
  x <> y -> y <> z -> x <> z -> L x y = true -> L y z = true -> L x z = true.
Proof.
  intros Ht Hx Hy Hz Hxy Hyz Hxz H1 H2.
  assert (Hgoal : ilp_trans1 L x y z).
  { assert (Hc : (x < y /\ y < z) \/ (x < z /\ z < y) \/ (y < x /\ x < z) \/
                 (y < z /\ z < x) \/ (z < x /\ x < y) \/ (z < y /\ y < x)) by lia.
    destruct Hc as [[A B]|[[A B]|[[A B]|[[A B]|[[A B]|[A B]]]]]].
    - destruct (Ht x y z A B Hz) as (H & _). exact H.
    - destruct (Ht x z y A B Hy) as (_ & H & _). exact H.
    - destruct (Ht y x z A B Hz) as (_ & _ & H & _). exact H.
    - destruct (Ht y z x A B Hx) as (_ & _ & _ & _ & H & _). exact H.
    - destruct (Ht z x y A B Hy) as (_ & _ & _ & H & _). exact H.
    - destruct (Ht z y x A B Hx) as (_ & _ & _ & _ & _ & H). exact H. }
  unfold ilp_trans1 in Hgoal. rewrite H1, H2 in Hgoal. destruct (L x z); [reflexivity|simpl in Hgoal; lia].
Qed.

(* ---------------------------------------------------------------------------------------------- *)
(* from a feasible assignment to a column permutation: insertion sort along L                      *)

Fixpoint ins (L : left_of) (x : nat) (l : list nat) : list nat :=
  match l with
  | [] => [x]
  | y :: r => if L x y then x :: y :: r else y :: ins L x r
  end.
Fixpoint isort (L : left_of) (l : list nat) : list nat :=
  match l with [] => [] | x :: r => ins L x (isort L r) end.

Lemma ins_perm L x l : Permutation (x :: l) (ins L x l).
Proof.
  induction l as [|y r IH]; simpl; [apply Permutation_refl|].
  destruct (L x y); [apply Permutation_refl|].
  eapply perm_trans; [apply perm_swap|]. now constructor.
Qed.

Lemma isort_perm L l : Permutation l (isort L l).
Proof.
  induction l as [|x r IH]; simpl; [constructor|].
  eapply perm_trans; [|apply ins_perm]. now constructor.
Qed.

Definition Lrel (L : left_of) (x y : nat) : Prop := L x y = true.

Lemma ins_sorted m L x l : ilp_total m L -> ilp_trans m L ->
  NoDup (x :: l) -> (forall y, In y (x :: l) -> y < m) ->
  StronglySorted (Lrel L) l -> StronglySorted (Lrel L) (ins L x l).
Proof.
  intros Htot Htr. induction l as [|y r IH]; intros Hnd Hlt Hs; simpl.
  - constructor; constructor.
  - inversion Hs as [|? ? Hsr Hfy]; subst.
    inversion Hnd as [|? ? Hxn Hndr]; subst. inversion Hndr as [|? ? Hyn Hndr']; subst.
    assert (Hxy : x <> y) by (intros ->; apply Hxn; now left).
    destruct (L x y) eqn:E.
    + constructor; [assumption|]. constructor; [exact E|].
      rewrite Forall_forall in *. intros w Hw. unfold Lrel.
      apply (ilp_trans_all m L x y w); auto.
      * apply Hlt. now left.
      * apply Hlt. right. now left.
      * apply Hlt. right. now right.
      * intros ->. contradiction.
      * intros ->. apply Hxn. now right.
      * now apply Hfy.
    + constructor.
      * apply IH; auto.
        -- constructor; [|assumption]. intros Hin. apply Hxn. now right.
        -- intros w [<-|Hw]; apply Hlt; [now left|right; now right].
      * rewrite Forall_forall in *. intros w Hw.
        eapply Permutation_in in Hw; [|apply Permutation_sym; apply ins_perm].
        destruct Hw as [<-|Hw]; [|now apply Hfy].
        unfold Lrel. rewrite (ilp_total_neg m L y x); auto.
        -- now rewrite E.
        -- apply Hlt. right. now left.
        -- apply Hlt. now left.
Qed.

Lemma isort_sorted m L l : ilp_total m L -> ilp_trans m L ->
  NoDup l -> (forall y, In y l -> y < m) -> StronglySorted (Lrel L) (isort L l).
Proof.
  intros Htot Htr. induction l as [|x r IH]; intros Hnd Hlt; simpl; [constructor|].
  inversion Hnd as [|? ? Hxn Hndr]; subst.
  apply (ins_sorted m); auto.
  - constructor.
    + intros Hin. apply Hxn. eapply Permutation_in; [apply Permutation_sym; apply isort_perm|exact Hin].
    + eapply Permutation_NoDup; [apply isort_perm|assumption].
  - intros y [<-|Hy]; [apply Hlt; now left|].
    apply Hlt. right. eapply Permutation_in; [apply Permutation_sym; apply isort_perm|exact Hy].
  - apply IH; auto. intros y Hy. apply Hlt. now right.
Qed.

Lemma ss_app_r {T} (R : T -> T -> Prop) l1 l2 : StronglySorted R (l1 ++ l2) -> StronglySorted R l2.
Proof. induction l1 as [|a l1 IH]; simpl; intros H; [assumption|]. inversion H; subst. now apply IH. Qed.

Lemma ss_sub3 {T} (R : T -> T -> Prop) x y z l :
  StronglySorted R l -> sub3 x y z l -> R x y /\ R y z.
Proof.
  intros Hs (l1 & l2 & l3 & l4 & ->). apply ss_app_r in Hs.
  inversion Hs as [|? ? Hs1 Hf1]; subst. split.
  - rewrite Forall_forall in Hf1. apply Hf1. apply in_or_app. right. now left.
  - apply ss_app_r in Hs1. inversion Hs1 as [|? ? Hs2 Hf2]; subst.
    rewrite Forall_forall in Hf2. apply Hf2. apply in_or_app. right. now left.
Qed.

Lemma sub3_nodup_neq {T} (x y z : T) l : NoDup l -> sub3 x y z l -> x <> z.
Proof.
  intros Hnd (l1 & l2 & l3 & l4 & ->) ->. apply NoDup_app_r in Hnd.
  inversion Hnd as [|? ? Hn _]; subst. apply Hn.
  apply in_or_app. right. right. apply in_or_app. right. now left.
Qed.

Lemma sub3_in {T} (x y z : T) l : sub3 x y z l -> In x l /\ In y l /\ In z l.
Proof.
  intros (l1 & l2 & l3 & l4 & ->). repeat split.
  - apply in_or_app. right. now left.
  - apply in_or_app. right. right. apply in_or_app. right. now left.
  - apply in_or_app. right. right. apply in_or_app. right. right. apply in_or_app. right. now left.
Qed.

Lemma feasible_C1P m rows : (forall row, In row rows -> length row = m) ->
  ilp_feasible m rows -> sp_C1P rows m.
Proof.
  intros Hlen (L & Htot & Htr & Hrows).
  assert (Hp : Permutation (seq 0 m) (isort L (seq 0 m))) by apply isort_perm.
  assert (Hs : StronglySorted (Lrel L) (isort L (seq 0 m))).
  { apply (isort_sorted m); auto; [apply seq_NoDup|]. intros y Hy. apply in_seq in Hy. lia. }
  exists (isort L (seq 0 m)). split; [assumption|].
  rewrite Forall_forall in *. intros row Hrow. apply ones_consec_iff_no_tft. intros H3.
  apply sub3_map_inv in H3. destruct H3 as (i & k & j & H3 & Ei & Ek & Ej).
  destruct (ss_sub3 _ _ _ _ _ Hs H3) as [Lik Lkj]. unfold Lrel in *.
  assert (Hij : i <> j).
  { eapply sub3_nodup_neq; [|exact H3]. eapply Permutation_NoDup; [exact Hp|apply seq_NoDup]. }
  destruct (sub3_in _ _ _ _ H3) as (Hi & Hk & Hj).
  assert (Hb : forall y, In y (isort L (seq 0 m)) -> y < length row).
  { intros y Hy. eapply Permutation_in in Hy; [|apply Permutation_sym; exact Hp].
    apply in_seq in Hy. rewrite (Hlen row Hrow). lia. }
  destruct (Hrows row Hrow i j k (Hb i Hi) (Hb j Hj) (Hb k Hk) Hij Ei Ej Ek) as [Hc _].
  rewrite Lik, Lkj in Hc. simpl in Hc. lia.
Qed.

(* ---------------------------------------------------------------------------------------------- *)
(* from a column permutation to a feasible assignment:  L i j := i is to the left of j             *)

Fixpoint idxn (l : list nat) (a : nat) : nat :=
  match l with [] => 0 | x :: r => if Nat.eqb a x then 0 else S (idxn r a) end.

Lemma idxn_nth l a d : In a l -> nth (idxn l a) l d = a.
Proof.
  induction l as [|x r IH]; intros Hin; [contradiction|]. simpl.
  destruct (Nat.eqb a x) eqn:E.
  - apply Nat.eqb_eq in E. now subst.
  - apply Nat.eqb_neq in E. destruct Hin as [->|Hin]; [congruence|]. now apply IH.
Qed.

Lemma idxn_lt l a : In a l -> idxn l a < length l.
Proof.
  induction l as [|x r IH]; intros Hin; [contradiction|]. simpl.
  destruct (Nat.eqb a x) eqn:E; [lia|].
  apply Nat.eqb_neq in E. destruct Hin as [->|Hin]; [congruence|]. specialize (IH Hin). lia.
Qed.

Lemma idxn_inj l a b : In a l -> In b l -> idxn l a = idxn l b -> a = b.
Proof.
  intros Ha Hb E. rewrite <- (idxn_nth l a 0 Ha), <- (idxn_nth l b 0 Hb). now rewrite E.
Qed.

Lemma nth_repeat_lt {T} (x d : T) n q : q < n -> nth q (repeat x n) d = x.
Proof.
  revert q; induction n as [|n IH]; intros q Hq; [lia|]. destruct q as [|q]; simpl; [reflexivity|].
  apply IH. lia.
Qed.

Lemma nth_blocks a b c q : q < a + b + c ->
  nth q (repeat false a ++ repeat true b ++ repeat false c) false = (a <=? q) && (q <? a + b).
Proof.
  intros Hq. destruct (Nat.lt_ge_cases q a) as [H1|H1].
  - rewrite app_nth1 by (rewrite repeat_length; lia). rewrite nth_repeat_lt by lia.
    replace (a <=? q) with false by (symmetry; apply Nat.leb_gt; lia). reflexivity.
  - rewrite app_nth2 by (rewrite repeat_length; lia). rewrite repeat_length.
    replace (a <=? q) with true by (symmetry; apply Nat.leb_le; lia). simpl.
    destruct (Nat.lt_ge_cases (q - a) b) as [H2|H2].
    + rewrite app_nth1 by (rewrite repeat_length; lia). rewrite nth_repeat_lt by lia.
      symmetry. apply Nat.ltb_lt. lia.
    + rewrite app_nth2 by (rewrite repeat_length; lia). rewrite repeat_length, nth_repeat_lt by lia.
      symmetry. apply Nat.ltb_ge. lia.
Qed.

Lemma C1P_feasible m rows : (forall row, In row rows -> length row = m) ->
  sp_C1P rows m -> ilp_feasible m rows.
Proof.
  intros Hlen (perm & Hp & Hrows).
  assert (Hin : forall x, x < m -> In x perm).
  { intros x Hx. eapply Permutation_in; [exact Hp|]. apply in_seq. lia. }
  assert (Hplen : length perm = m).
  { rewrite <- (Permutation_length Hp). apply seq_length. }
  exists (fun i j => idxn perm i <? idxn perm j). split; [|split].
  - intros a1 a2 H12 H2.
    assert (Hne : idxn perm a1 <> idxn perm a2).
    { intros E. apply idxn_inj in E; [lia|apply Hin; lia|apply Hin; lia]. }
    destruct (idxn perm a1 <? idxn perm a2) eqn:E1, (idxn perm a2 <? idxn perm a1) eqn:E2; simpl;
      try reflexivity.
    + apply Nat.ltb_lt in E1, E2. lia.
    + apply Nat.ltb_ge in E1, E2. lia.
  - assert (Ht : forall x y z, ilp_trans1 (fun i j => idxn perm i <? idxn perm j) x y z).
    { intros x y z. unfold ilp_trans1.
      destruct (idxn perm x <? idxn perm y) eqn:E1, (idxn perm y <? idxn perm z) eqn:E2,
               (idxn perm x <? idxn perm z) eqn:E3; simpl; try lia.
      apply Nat.ltb_lt in E1, E2. apply Nat.ltb_ge in E3. lia. }
    intros a1 a2 a3 _ _ _. repeat split; apply Ht.
  - rewrite Forall_forall in *. intros row Hrow i j k Hi Hj Hk Hij Ei Ej Ek.
    rewrite (Hlen row Hrow) in *.
    destruct (Hrows row Hrow) as (a & b & c & E).
    assert (Hsum : a + b + c = m).
    { apply (f_equal (@length bool)) in E. rewrite map_length, !app_length, !repeat_length in E. lia. }
    assert (Hval : forall x, x < m -> nth x row false = (a <=? idxn perm x) && (idxn perm x <? a + b)).
    { intros x Hx. assert (Hq : idxn perm x < a + b + c).
      { rewrite Hsum, <- Hplen. apply idxn_lt. now apply Hin. }
      assert (Hq' : idxn perm x < length perm) by (apply idxn_lt; now apply Hin).
      assert (E2 : nth (idxn perm x) (map (fun j0 => nth j0 row false) perm) false = nth x row false).
      { rewrite (nth_indep (map (fun j0 => nth j0 row false) perm) false (nth 0 row false))
          by (rewrite map_length; exact Hq').
        rewrite (map_nth (fun j0 => nth j0 row false)). rewrite idxn_nth by (now apply Hin). reflexivity. }
      rewrite <- E2, E. now apply nth_blocks. }
    rewrite (Hval i Hi) in Ei. rewrite (Hval j Hj) in Ej. rewrite (Hval k Hk) in Ek.
    apply andb_true_iff in Ei, Ej. destruct Ei as [Ei1 Ei2], Ej as [Ej1 Ej2].
    apply Nat.leb_le in Ei1, Ej1. apply Nat.ltb_lt in Ei2, Ej2.
    apply andb_false_iff in Ek. simpl.
    split.
    + destruct (idxn perm i <? idxn perm k) eqn:E1, (idxn perm k <? idxn perm j) eqn:E2; simpl; try lia.
      apply Nat.ltb_lt in E1, E2. destruct Ek as [Ek|Ek].
      * apply Nat.leb_gt in Ek. lia.
      * apply Nat.ltb_ge in Ek. lia.
    + destruct (idxn perm j <? idxn perm k) eqn:E1, (idxn perm k <? idxn perm i) eqn:E2; simpl; try lia.
      apply Nat.ltb_lt in E1, E2. destruct Ek as [Ek|Ek].
      * apply Nat.leb_gt in Ek. lia.
      * apply Nat.ltb_ge in Ek. lia.
Qed.

(* ---------------------------------------------------------------------------------------------- *)

Theorem ilp_encodes_C1P m rows : (forall row, In row rows -> length row = m) ->
  (ilp_feasible m rows <-> sp_C1P rows m).
Proof. intros H. split; [now apply feasible_C1P|now apply C1P_feasible]. Qed.

Lemma sp_matrix_row_length alts p row : In row (sp_matrix alts p) -> length row = length alts.
Proof.
  intros H. unfold sp_matrix in H. apply in_flat_map in H. destruct H as (o & _ & H).
  apply in_map_iff in H. destruct H as (k & <- & _). unfold sp_matrix_row. apply map_length.
Qed.

(* the constraints of is_single_peaked_ILP over left_of_vars are satisfiable  <->  the profile is single-peaked *)
Theorem ilp_encoding_sound alts p : NoDup alts -> Forall (complete_on alts) p ->
  (ilp_feasible (length alts) (sp_matrix alts p) <->
   exists axis, Permutation alts axis /\
                forall o, In o p -> forall k, contiguous (concat (firstn k o)) axis).
Proof.
  intros Hnd Hc. rewrite (ilp_encodes_C1P (length alts) (sp_matrix alts p)).
  - apply sp_matrix_C1P; [assumption|].
    intros o Ho. rewrite Forall_forall in Hc. now destruct (Hc o Ho) as (_ & _ & H).
  - intros row. apply sp_matrix_row_length.
Qed.
