"""bin/check <ID> quick|thorough [--replay file]  — one property check (see DESIGN.md §2, §4)."""
import glob
import hashlib
import importlib
import json
import os
import random
import re
import shutil
import subprocess
import sys
import time
import traceback

from . import cover, fingerprint, implrun, oracle, proto

VERIF = oracle.VERIF
COQ = oracle.COQ
WORK = os.path.join(VERIF, ".work")

HYGIENE_RE = re.compile(
    r"\b(Admitted|admit|Axiom|Axioms|Parameter|Parameters|Conjecture|Conjectures|Admit Obligations|"
    r"Unset Guard Checking|Unset Positivity Checking|Unset Universe Checking|bypass_check|type-in-type|"
    r"impredicative-set|native_compute)\b")
SECTION_ONLY_RE = re.compile(r"^\s*(Variable|Variables|Hypothesis|Hypotheses|Context)\b")

GENERIC_TRUSTED = [
    "Coq 8.16.1 kernel (coqc; coqchk in the thorough tier); vm_compute only in finite-domain lemmas; no native_compute",
    "Coq extraction with ExtrOcamlBasic only (bool, option, unit, list, prod, sumbool -> OCaml natives; no "
    "Extract Constant / Extract Inductive of our own), ocamlopt 4.13.1, the generic driver coq/oracle/main.ml",
    "the correspondence harness (harness/core, harness/props): generators, adapters, canonicalisation, watchdog "
    "- differential testing, it bounds what is known about the code as opposed to the model",
    "CPython 3.12 and the third-party packages preflibtools imports (numpy, mip/CBC, prefsampling)",
]


def strip_comments(src):
    out, depth, i, n = [], 0, 0, len(src)
    while i < n:
        if src.startswith("(*", i):
            depth += 1
            i += 2
        elif src.startswith("*)", i) and depth > 0:
            depth -= 1
            i += 2
        else:
            if depth == 0:
                out.append(src[i])
            elif src[i] == "\n":
                out.append("\n")
            i += 1
    return "".join(out)


def hygiene_scan():
    """Forbidden vernacular anywhere in the development; Variable/Hypothesis only inside a Section."""
    hits = []
    for f in sorted(glob.glob(os.path.join(COQ, "theories", "**", "*.v"), recursive=True)):
        src = strip_comments(open(f, encoding="utf-8").read())
        depth = 0
        for ln, line in enumerate(src.splitlines(), 1):
            if re.match(r"^\s*Section\b", line):
                depth += 1
            elif re.match(r"^\s*End\b", line) and depth > 0:
                depth -= 1
            m = HYGIENE_RE.search(line)
            if m:
                hits.append(f"{os.path.relpath(f, VERIF)}:{ln}: {m.group(0)}")
            if depth == 0 and SECTION_ONLY_RE.match(line):
                hits.append(f"{os.path.relpath(f, VERIF)}:{ln}: {line.strip()[:60]} outside a Section")
    return hits


def theorem_names(pid):
    f = os.path.join(COQ, "theories", "Properties", pid + ".v")
    if not os.path.exists(f):
        return []
    src = strip_comments(open(f, encoding="utf-8").read())
    return re.findall(r"^\s*(?:Theorem|Example|Corollary)\s+([A-Za-z0-9_']+)", src, re.M)


def print_assumptions(pid):
    """Recompile Properties/<pid>.v (its dependencies are up to date) to capture Print Assumptions."""
    d = os.path.join(WORK, f"pa_{pid}_{os.getpid()}")
    os.makedirs(d, exist_ok=True)
    out_vo = os.path.join(d, pid + ".vo")
    cmd = ["coqc", "-Q", "theories", "PrefVerif", "-w", "none", "-o", out_vo,
           os.path.join("theories", "Properties", pid + ".v")]
    try:
        p = subprocess.run(cmd, cwd=COQ, stdout=subprocess.PIPE, stderr=subprocess.STDOUT, text=True, timeout=900)
    finally:
        shutil.rmtree(d, ignore_errors=True)
    txt = p.stdout
    closed = txt.count("Closed under the global context")
    axioms = []
    for blk in re.findall(r"Axioms:\n((?:.+\n?)+?)(?:\n|$)", txt):
        for line in blk.splitlines():
            m = re.match(r"^([A-Za-z0-9_.']+)\s*:", line)
            if m:
                axioms.append(m.group(1))
    return {"rc": p.returncode, "closed": closed, "axioms": sorted(set(axioms)), "raw": txt[-3000:]}


def coqchk(pid, timeout=1500):
    cmd = f"coqchk -o -Q theories PrefVerif PrefVerif.Properties.{pid} 2>&1 | tail -40"
    try:
        p = subprocess.run(cmd, cwd=COQ, shell=True, stdout=subprocess.PIPE, text=True, timeout=timeout)
        return p.stdout
    except subprocess.TimeoutExpired:
        return "coqchk timed out"


def load_known():
    f = os.path.join(VERIF, "known_findings.json")
    if not os.path.exists(f):
        return []
    return json.load(open(f))["findings"]


def case_sha(case):
    return proto.sha(case["op"], case["payload"])


def match_known(mod, pid, case, impl_res, model_res, failure, known):
    for k in known:
        if k.get("property") != pid or k.get("status") != "open":
            continue
        m = k.get("match", {})
        if "ops" in m and case["op"] not in m["ops"]:
            continue
        if "kind" in m and failure.get("kind") != m["kind"]:
            continue
        if "sha256" in m:
            if case_sha(case) in m["sha256"]:
                return k
            continue
        if "predicate" in m:
            fn = getattr(mod, "PREDICATES", {}).get(m["predicate"])
            try:
                if fn and fn(case, impl_res, model_res, failure):
                    return k
            except Exception:
                pass
            continue
        if "kind" in m:      # matched by property / ops / kind alone
            return k
    return None


def evaluate(mod, cases, timeout_s, nproc):
    """impl -> oracle -> judge for a list of cases. Returns list of (case, impl_res, model_res, failure)."""
    t0 = time.time()
    # the watchdog limit exists to detect non-termination, not slowness: on a loaded machine (other checks, solver
    # threads) it is stretched in proportion to the load, so that a slow run of the unchanged code is never an alarm
    try:
        load = os.getloadavg()[0] / max(1, os.cpu_count() or 1)
    except OSError:
        load = 1.0
    timeout_s = timeout_s * min(6.0, max(1.0, load))
    impl_res = implrun.run_chunked(mod.impl, cases, timeout_s=timeout_s, nproc=nproc,
                                   chunk=getattr(mod, "CHUNK", 40))
    # a watchdog timeout or a dead worker is re-tried once, alone, with a doubled limit: non-termination of the
    # implementation is deterministic and survives the retry, a transient stall (solver library, machine load) does not
    retry = [k for k, r in enumerate(impl_res)
             if isinstance(r, dict) and ("timeout" in r or str(r.get("crash", "")).startswith("worker died"))]
    if retry and len(retry) <= 12:
        again = implrun.run(mod.impl, [cases[k] for k in retry], timeout_s=3 * timeout_s, nproc=min(4, nproc),
                            max_timeouts=3)
        for k, r in zip(retry, again):
            impl_res[k] = r
    t1 = time.time()
    reqs, spans = [], []
    oreq = getattr(mod, "oracle_requests", None)
    for c, r in zip(cases, impl_res):
        if isinstance(r, dict) and r.get("skipped"):
            spans.append((len(reqs), 0))
            continue
        if oreq:
            rs = list(oreq(c, r))
        else:
            rs = [(c["op"], c["payload"])]
        spans.append((len(reqs), len(rs)))
        reqs.extend(rs)
    model_all = oracle.run_parallel(reqs, nproc=min(nproc, 8))
    t2 = time.time()
    out = []
    n_skipped = sum(1 for r in impl_res if isinstance(r, dict) and r.get("skipped"))
    for c, r, (s, k) in zip(cases, impl_res, spans):
        mres = model_all[s:s + k]
        failure = None
        if isinstance(r, dict) and r.get("skipped"):
            continue          # not evaluated: the run was cut short after repeated watchdog timeouts
        if isinstance(r, dict) and "timeout" in r:
            failure = {"kind": "timeout", "reason": f"implementation did not return within {r['timeout']} s"}
        elif isinstance(r, dict) and "crash" in r:
            failure = {"kind": "exception", "reason": r["crash"]}
        elif any(isinstance(m, dict) for m in mres):
            failure = {"kind": "broken-correspondence", "reason": "oracle error: %r" % (mres,)}
        else:
            try:
                j = mod.judge(c, r, mres)
            except Exception as e:
                j = {"kind": "broken-correspondence", "reason": "judge raised: " + repr(e) + traceback.format_exc()[-400:]}
            if j:
                failure = j if isinstance(j, dict) else {"kind": "mismatch", "reason": str(j)}
                failure.setdefault("kind", "mismatch")
        out.append((c, r, mres, failure))
    return out, {"impl_s": round(t1 - t0, 2), "oracle_s": round(t2 - t1, 2), "oracle_requests": len(reqs),
                 "skipped_after_repeated_timeouts": n_skipped}


def shrink(mod, case, timeout_s, budget=150, seconds=12.0):
    sh = getattr(mod, "shrink", None)
    if not sh:
        return case, 0
    steps = 0
    improved = True
    t_end = time.time() + seconds
    while improved and steps < budget and time.time() < t_end:
        improved = False
        cands = list(sh(case))[:60]
        if not cands:
            break
        res, _ = evaluate(mod, cands, timeout_s, 8)
        steps += len(cands)
        for c, r, m, f in res:
            if f and f.get("kind") != "broken-correspondence":
                case, improved = c, True
                break
    return case, steps


def write_replay(pid, tier, seed, case, impl_res, model_res, failure, mod, extra=None):
    os.makedirs(os.path.join(VERIF, "replays"), exist_ok=True)
    h = case_sha(case)[:12] if case else hashlib.sha256(json.dumps(failure, sort_keys=True).encode()).hexdigest()[:12]
    path = os.path.join(VERIF, "replays", f"{pid}-{h}.json")
    desc = None
    if case is not None and hasattr(mod, "describe"):
        try:
            desc = mod.describe(case)
        except Exception:
            desc = None
    doc = {"property": pid, "tier": tier, "seed": seed, "kind": failure.get("kind"),
           "reason": failure.get("reason"), "theorem": failure.get("theorem", getattr(mod, "THEOREMS_FOR_OP", {}).get(case["op"] if case else "", None)),
           "case": case, "input": desc, "impl": impl_res, "model": model_res}
    if extra:
        doc.update(extra)
    json.dump(doc, open(path, "w"), indent=1, default=str)
    return path


def sweep_work(max_age_s=7200):
    """Remove per-case scratch directories (.work/cNN_*) that a killed worker left behind."""
    now = time.time()
    for d in glob.glob(os.path.join(WORK, "c[0-9][0-9]_*")):
        try:
            if os.path.isdir(d) and now - os.path.getmtime(d) > max_age_s:
                shutil.rmtree(d, ignore_errors=True)
        except OSError:
            pass


def main(argv):
    if len(argv) < 2:
        print("usage: check <ID> quick|thorough [--replay file]")
        return 2
    pid, tier = argv[0], argv[1]
    replay = None
    if "--replay" in argv:
        replay = argv[argv.index("--replay") + 1]
    seed = int(os.environ.get("VERIF_SEED", "0"))
    t_start = time.time()
    sweep_work()
    sys.path.insert(0, os.path.join(VERIF, "harness"))
    mod = importlib.import_module("props." + pid.lower())
    nproc = int(os.environ.get("VERIF_NPROC", "16"))
    timeout_s = getattr(mod, "TIMEOUT_S", 20.0)
    violations = []     # (replay path, suffix)
    known_hits = {}

    # ---- 1. proof obligations ------------------------------------------------------------------
    build_info = {"proofs_ok": False, "proof_log": "", "build_s": 0}
    oracle_ok = True
    try:
        build_info = oracle.build([f"theories/Properties/{pid}.vo"])
    except oracle.BuildError as e:
        oracle_ok = False
        build_info["proof_log"] = f"[{e.stage}] {e.log[-3000:]}"
    hyg = hygiene_scan()
    thms = theorem_names(pid)
    pa = print_assumptions(pid) if build_info["proofs_ok"] else {"rc": 1, "closed": 0, "axioms": [], "raw": ""}
    proofs_ok = build_info["proofs_ok"] and not hyg and pa["rc"] == 0 and len(thms) > 0
    allowed_axioms = set(getattr(mod, "ALLOWED_AXIOMS", []))
    bad_axioms = [a for a in pa["axioms"] if a not in allowed_axioms]
    if bad_axioms:
        proofs_ok = False
    chk_out = None
    if tier == "thorough" and proofs_ok and os.environ.get("VERIF_SKIP_COQCHK") != "1":
        chk_out = coqchk(pid)
        if "Modules were successfully checked" not in chk_out:
            proofs_ok = False

    # ---- 2. correspondence ---------------------------------------------------------------------
    known = load_known()
    results, timing, n_eval = [], {}, 0
    dist = {}
    nontriv = set()
    samples = []
    concrete_failures = []
    broken_corr = []
    extra_info = {}
    if oracle_ok:
        try:
            if replay:
                doc = json.load(open(replay))
                cases = [doc["case"]]
            else:
                cases = []
                for f in sorted(glob.glob(os.path.join(VERIF, "corpus", pid, "*.json"))):
                    d = json.load(open(f))
                    for c in (d if isinstance(d, list) else [d]):
                        c.setdefault("tags", {})["corpus"] = os.path.basename(f)
                        cases.append(c)
                n_corpus = len(cases)
                cases.extend(mod.generate(tier, seed))
                # modelled source differs from the reviewed tree: extend the campaign with further seeds
                try:
                    src_changed = fingerprint.changed(os.environ.get("VERIF_REPO", "/repo"))
                except Exception as e:  # never affects the verdict
                    src_changed = None
                    extra_info = {"error": repr(e)}
                if src_changed and os.environ.get("VERIF_NO_ESCALATE") != "1":
                    have = {case_sha(c) for c in cases}
                    n_before = len(cases)
                    extra_seeds = [seed + 7919 * k for k in range(1, (3 if tier == "quick" else 2))]
                    for s2 in extra_seeds:
                        for c in mod.generate(tier, s2):
                            h = case_sha(c)
                            if h not in have:
                                have.add(h)
                                cases.append(c)
                    extra_info = {"changed_functions": src_changed[:40], "n_changed": len(src_changed),
                                  "extra_seeds": extra_seeds, "extra_cases": len(cases) - n_before}
                elif src_changed is not None and not extra_info:
                    extra_info = {"changed_functions": src_changed[:40], "n_changed": len(src_changed),
                                  "extra_seeds": [], "extra_cases": 0}
            results, timing = evaluate(mod, cases, timeout_s, nproc)
        except oracle.BuildError as e:
            broken_corr.append({"kind": "broken-correspondence", "reason": f"[{e.stage}] {e.log[-1500:]}"})
        except Exception as e:
            broken_corr.append({"kind": "broken-correspondence",
                                "reason": "harness error: " + repr(e) + "\n" + traceback.format_exc()[-1500:]})
    else:
        broken_corr.append({"kind": "broken-correspondence", "reason": build_info["proof_log"]})

    seen = set()
    for c, r, m, f in results:
        n_eval += 1
        h = case_sha(c)
        labels = []
        try:
            labels = list(mod.stats(c, r, m)) if hasattr(mod, "stats") else [c["op"]]
        except Exception:
            labels = [c["op"]]
        for lb in labels:
            dist[lb] = dist.get(lb, 0) + 1
        try:
            nt = mod.nontrivial(c, r, m) if hasattr(mod, "nontrivial") else True
        except Exception:
            nt = False
        if nt and h not in seen:
            nontriv.add(h)
        seen.add(h)
        if len(samples) < 6 and nt and (n_eval % 97 == 1 or len(results) < 50):
            samples.append({"op": c["op"], "input": (mod.describe(c) if hasattr(mod, "describe") else c["payload"]),
                            "impl": r, "model": m})
        if f:
            if f.get("kind") == "broken-correspondence":
                broken_corr.append(dict(f, case=c))
            else:
                concrete_failures.append((c, r, m, f))
    if replay and results:
        c, r, m, f = results[0]
        print(json.dumps({"case": c, "impl": r, "model": m, "failure": f}, indent=1, default=str))

    # a module whose implementation calls a multi-threaded solver (RERUN_FAILURES = True) has each of its first few
    # failures evaluated again, alone, in a fresh worker process: a failure that does not come back is marked
    # kind = "not-reproducible" (the implementation answered differently on the same input). That kind is only ever
    # suppressed by an OPEN entry of known_findings.json; without one it is reported like any other failure.
    rerun_log = []
    if getattr(mod, "RERUN_FAILURES", False) and not replay:
        budget = 8
        for idx, (c, r, m, f) in enumerate(concrete_failures):
            if budget <= 0:
                break
            if f.get("kind") == "timeout" or match_known(mod, pid, c, r, m, f, known):
                continue
            budget -= 1
            came_back = 0
            for _ in range(2):
                try:
                    rr, _t = evaluate(mod, [c], timeout_s, 1)
                    if rr[0][3]:
                        came_back += 1
                except Exception:
                    came_back += 1
            rerun_log.append({"case_sha": case_sha(c), "op": c["op"], "failed_again": came_back, "of": 2,
                              "first_reason": str(f.get("reason", ""))[:300]})
            if came_back == 0:
                f2 = dict(f, kind="not-reproducible", original_kind=f.get("kind"))
                concrete_failures[idx] = (c, r, m, f2)

    # known findings / violations
    reported = 0
    for c, r, m, f in concrete_failures:
        k = match_known(mod, pid, c, r, m, f, known)
        if k:
            known_hits.setdefault(k["id"], k)
            continue
        if reported >= 5:
            reported += 1
            continue
        sc = c
        if not replay and f.get("kind") not in ("timeout", "not-reproducible") and reported < 3 and time.time() - t_start < 300:
            try:
                sc, _ = shrink(mod, c, min(timeout_s, 5.0))
            except Exception:
                sc = c
        if sc is not c:
            rr, _ = evaluate(mod, [sc], timeout_s, 1)
            c2, r2, m2, f2 = rr[0]
            if f2 and not match_known(mod, pid, c2, r2, m2, f2, known):
                path = write_replay(pid, tier, seed, c2, r2, m2, f2, mod, {"shrunk_from": c})
            else:
                path = write_replay(pid, tier, seed, c, r, m, f, mod)
        else:
            path = write_replay(pid, tier, seed, c, r, m, f, mod)
        violations.append((path, ""))
        reported += 1

    if not violations:
        # broken proof / broken correspondence with no concrete failing input
        problems = []
        if not proofs_ok:
            why = []
            if not build_info["proofs_ok"]:
                why.append("Coq build of Properties/%s.v failed: %s" % (pid, build_info["proof_log"][-1500:]))
            if hyg:
                why.append("hygiene scan: " + "; ".join(hyg[:10]))
            if bad_axioms:
                why.append("unexpected axioms: " + ", ".join(bad_axioms))
            if not thms:
                why.append("no theorem found in Properties/%s.v" % pid)
            if build_info["proofs_ok"] and pa["rc"] != 0:
                why.append("recompiling Properties/%s.v for Print Assumptions failed: %s" % (pid, pa["raw"][-800:]))
            if chk_out is not None and "Modules were successfully checked" not in chk_out:
                why.append("coqchk: " + chk_out[-800:])
            problems.append({"kind": "broken-proof", "reason": " | ".join(why), "theorem": ", ".join(thms) or pid})
        for b in broken_corr[:3]:
            problems.append(b)
        for pb in problems[:3]:
            case = pb.pop("case", None)
            path = write_replay(pid, tier, seed, case, None, None, pb, mod,
                                {"note": "no concrete failing input was found by the campaign of this run; the named "
                                         "theorem / correspondence no longer checks"})
            violations.append((path, " no-failing-input-found"))

    # line coverage of the anchored files by a sample of the campaign (evidence only)
    coverage_info = {}
    cov_files = getattr(mod, "COVER_FILES", None)
    if cov_files and results and not replay and os.environ.get("VERIF_NO_COVERAGE") != "1":
        try:
            step = max(1, len(results) // (250 if tier == "quick" else 1500))
            sample = [c for k, (c, r, m, f) in enumerate(results) if k % step == 0 and not f]
            coverage_info = cover.measure(mod.impl, sample, cov_files,
                                          timeout_s=getattr(mod, "COVER_TIMEOUT_S", 90 if tier == "quick" else 600))
            coverage_info = {"sample_size": len(sample), "files": coverage_info}
        except Exception as e:  # evidence only: never affects the verdict
            coverage_info = {"error": repr(e)}

    # ---- 3. evidence ---------------------------------------------------------------------------
    wall = round(time.time() - t_start, 2)
    obligations = len(thms)
    discharged = obligations if (build_info["proofs_ok"] and pa["rc"] == 0) else 0
    trusted = list(GENERIC_TRUSTED) + list(getattr(mod, "TRUSTED", []))
    trusted.append("Print Assumptions for Properties/%s.v: %d theorem(s) 'Closed under the global context'; axioms: %s"
                   % (pid, pa["closed"], ", ".join(pa["axioms"]) or "none"))
    if chk_out is not None:
        trusted.append("coqchk -o: " + " ".join(chk_out.split())[-600:])
    ev = {
        "property_id": pid, "tier": tier, "seed": seed, "level": "proof",
        "coverage": {
            "obligations": obligations, "discharged": discharged,
            "checker_cmd": "make -C coq theories/Properties/%s.vo  (coqc 8.16.1, full .vo build)%s"
                           % (pid, "; coqchk -o PrefVerif.Properties.%s" % pid if chk_out is not None else ""),
            "trusted_base": trusted,
            "theorems": thms,
            "hygiene_hits": hyg,
            "evaluations": n_eval,
            "distinct_nontrivial": len(nontriv),
            "rule": getattr(mod, "RULE", ""),
            "samples": samples[:6],
            "distribution": dict(sorted(dist.items())),
            "exhaustive": bool(getattr(mod, "EXHAUSTIVE", {}).get(tier)) if hasattr(mod, "EXHAUSTIVE") else False,
            "exhaustive_ranges": getattr(mod, "EXHAUSTIVE", {}).get(tier, "") if hasattr(mod, "EXHAUSTIVE") else "",
            "timing": dict(timing, build_s=build_info.get("build_s")),
            "known_findings_hit": sorted(known_hits),
            "impl_line_coverage": coverage_info,
            "concrete_failures": len(concrete_failures),
            "source_fingerprint": extra_info,
            "reruns_of_failures": rerun_log,
        },
        "assumptions": list(getattr(mod, "ASSUMPTIONS", [])),
        "wall_s": wall,
        "violations": len(violations),
    }
    if not replay:
        # runs against a scratch copy of the repository (VERIF_REPO) must not overwrite the committed evidence
        scratch = os.environ.get("VERIF_REPO", "/repo").rstrip("/") not in ("", "/repo")
        evdir = os.path.join(WORK, "evidence-scratch") if scratch else os.path.join(VERIF, "evidence")
        os.makedirs(evdir, exist_ok=True)
        json.dump(ev, open(os.path.join(evdir, pid + ".json"), "w"), indent=1, default=str)

    # every OPEN listed finding of this property is announced on every run (an intermittent one may not have been
    # observed by this run's campaign; the evidence says which were)
    for k in known:
        if k.get("property") == pid and k.get("status") == "open" and not replay:
            seen_now = "observed in this run" if k["id"] in known_hits else "not observed in this run"
            print(f"KNOWN-FINDING: property={pid} {k['id']} ({seen_now}) {k['what']}")
    for path, suffix in violations:
        print(f"VIOLATION property={pid} replay={path}{suffix}")
    if extra_info.get("extra_cases"):
        print(f"[{pid} {tier}] NOTE: {extra_info['n_changed']} function(s) of preflibtools differ from the reviewed tree "
              f"({', '.join(extra_info['changed_functions'][:4])}{' ...' if extra_info['n_changed'] > 4 else ''}): "
              f"campaign extended by {extra_info['extra_cases']} cases (seeds {extra_info['extra_seeds']})")
    if timing.get("skipped_after_repeated_timeouts"):
        print(f"[{pid} {tier}] NOTE: {timing['skipped_after_repeated_timeouts']} cases were not evaluated (run cut short "
              f"after repeated watchdog timeouts)")
    print(f"[{pid} {tier}] theorems={obligations} discharged={discharged} cases={n_eval} "
          f"nontrivial={len(nontriv)} failures={len(concrete_failures)} known={len(known_hits)} wall={wall}s")
    return 1 if violations else 0


if __name__ == "__main__":
    sys.exit(main(sys.argv[1:]))
