(* Model/TreeAlgo.v — C13, deepening: a MIRROR of Trick's leaf-elimination loop as it is written in
   preflibtools/properties/subdomains/ordinal/singlepeaked/single_peaked_tree.py
   (restrict_preferences, get_bottom_alts, get_B, is_single_peaked_on_tree).  Executable definitions only.

   Python iterates two `set`s in an order the language does not specify:
     * `for a in L_set`                      — the order in which the bottom alternatives are visited,
     * `B_a.__iter__().__next__()`           — which member of B(a) becomes the neighbour of a.
   Both are parameters of the model (Section variables; each also receives the current C_set, so that any
   run of the Python code is an instance: C_set never repeats).  The theorems in Proofs/TreeAlgo.v hold for
   every admissible choice; extraction instantiates them in two different ways (see the end of the file).

   C_set is a duplicate-free list (sub-list of alts), a Python set result is a list, `tree` is accumulated
   in reverse and reversed at the end (so the edge list comes out in Python's append order). *)
From Coq Require Import List NArith Bool Arith.
From PrefVerif Require Import Lib.Val Model.Tree.
Import ListNotations.

(* [c for c in order if c in alternatives_set] *)
Definition restrict (C : list N) (v : list N) : list N := filter (fun x => memb x C) v.

(* C_set.remove(a) *)
Definition drop (a : N) (C : list N) : list N := filter (fun x => negb (N.eqb x a)) C.

(* get_bottom_alts(restrict_preferences(orders, C_set)), before it is turned into a set
   (voter[-1] of an empty restricted vote raises in Python: outside the domain, skipped here) *)
Definition bottoms (p : list (list N)) (C : list N) : list N :=
  flat_map (fun v => match restrict C v with [] => [] | x :: r => [last r x] end) p.

(* i[: i.index(a)] *)
Fixpoint before (a : N) (r : list N) : list N :=
  match r with
  | [] => []
  | x :: r' => if N.eqb x a then [] else x :: before a r'
  end.

(* B(i, a) for a restricted vote r:  {second(i)} if a is on top, else everything ranked before a *)
Definition B_i (a : N) (r : list N) : list N :=
  match r with
  | [] => []
  | t :: r' => if N.eqb a t then firstn 1 r' else before a r
  end.

Definition inter (l1 l2 : list N) : list N := filter (fun x => memb x l2) l1.

(* the loop of get_B: B_a = None, then B_a = B_i_a if B_a is None else B_a.intersection(B_i_a) *)
Fixpoint get_B_from (acc : option (list N)) (a : N) (rs : list (list N)) : option (list N) :=
  match rs with
  | [] => acc
  | r :: rs' =>
      get_B_from (Some (match acc with None => B_i a r | Some B => inter B (B_i a r) end)) a rs'
  end.
Definition get_B (p : list (list N)) (C : list N) (a : N) : option (list N) :=
  get_B_from None a (map (restrict C) p).

Section Trick.
(* visiting order of the set of bottoms (a duplicate-free list with the same members) *)
Variable enumL : list N -> list N -> list N.
(* the member of the non-empty set B(a) returned by its iterator; arguments: C_set, a, B(a) *)
Variable pickB : list N -> N -> list N -> N.

(* `for a in L_set:` — L is NOT recomputed, C_set and tree are the current ones.
   None = `return False, None` *)
Fixpoint pass (p : list (list N)) (L : list N) (C : list N) (T : list edge) : option (list N * list edge) :=
  match L with
  | [] => Some (C, T)
  | a :: L' =>
      match get_B p C a with
      | Some (b0 :: B') =>                          (* `if B_a:` *)
          let b := pickB C a (b0 :: B') in
          pass p L' (drop a C) ((b, a) :: T)
      | _ => None
      end
  end.

(* `if len(C_set) == 2: a, b = C_set; tree.append((a, b))`, `return True, tree` *)
Definition finish (C : list N) (T : list edge) : list edge :=
  match C with
  | [x; y] => rev ((x, y) :: T)
  | _ => rev T
  end.

(* `while len(C_set) >= 3:` with explicit fuel *)
Fixpoint loop (fuel : nat) (p : list (list N)) (C : list N) (T : list edge) : result (bool * list edge) :=
  if Nat.ltb (length C) 3 then Ok (true, finish C T)
  else match fuel with
       | 0 => Err OutOfFuel
       | S f =>
           match pass p (enumL C (bottoms p C)) C T with
           | None => Ok (false, [])
           | Some (C', T') => loop f p C' T'
           end
       end.

Definition trick (alts : list N) (p : list (list N)) : result (bool * list edge) :=
  loop (length alts) p alts [].
End Trick.

(* ---- two admissible instantiations used by the oracle ---- *)
Fixpoint dedup (l : list N) : list N :=
  match l with
  | [] => []
  | x :: l' => if memb x l' then dedup l' else x :: dedup l'
  end.
(* first: bottoms in order of (last) appearance, first member of B(a) *)
Definition enum_fwd (C l : list N) : list N := dedup l.
Definition pick_first (C : list N) (a : N) (B : list N) : N := hd 0%N B.
(* second: the reverse visiting order, last member of B(a) *)
Definition enum_bwd (C l : list N) : list N := rev (dedup l).
Definition pick_last (C : list N) (a : N) (B : list N) : N := last B 0%N.

Definition trick_fwd := trick enum_fwd pick_first.
Definition trick_bwd := trick enum_bwd pick_last.
