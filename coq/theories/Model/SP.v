(* Model/SP.v — single-peakedness (C03 strict profiles, C11 weak orders). Executable definitions only.

   Anchors in /repo: preflibtools/properties/subdomains/ordinal/singlepeaked/singlepeakedness.py
     is_single_peaked_axis    MIRRORED   (sp_scan / sp_axis_weak / sp_axis_profile / is_single_peaked_axis_model)
     sp_cons_ones_matrix      MIRRORED   (sp_matrix)
     is_single_peaked (ELO), is_single_peaked_pq_tree (-> isC1P -> PQ-trees), is_single_peaked_ILP (CBC)
                              REFERENCE  (spw_decide / sp_decide: verified enumeration of all axes) +
                                         verified witness checker (spw_check_axis / sp_check_axis) + type gates

   An order is the list of its indifference classes, best first; a strict ranking is a flat list.
   The profile is the list instance.orders (distinct orders; multiplicities play no role in any of the
   modelled functions). *)
From Coq Require Import List Arith NArith Bool.
From PrefVerif Require Import Lib.Val Lib.Perms Lib.Contig.
Import ListNotations.

Definition order := list (list N).
Definition ranking := list N.

(* data types of an OrdinalInstance (anything else, e.g. "cat", "wmd", "" : DTother) *)
Inductive ord_dt := DTsoc | DTsoi | DTtoc | DTtoi | DTother.

(* ---------------------------------------------------------------------------------------------- *)
(* indif_class_pos(order, alt): index of the first class containing alt; Python returns None when  *)
(* there is none (out of the domain of C03/C11: orders are complete)                               *)
Fixpoint class_index (o : order) (a : N) : option nat :=
  match o with
  | [] => None
  | c :: r => if memN a c then Some 0 else option_map S (class_index r a)
  end.
(* total version: absent alternatives get the index "after the last class" *)
Definition class_pos (o : order) (a : N) : nat :=
  match class_index o a with Some i => i | None => length o end.

(* ---------------------------------------------------------------------------------------------- *)
(* the scan of is_single_peaked_axis over the list of positions of one order:
       peak_passed = False ; previous_position = None
       for pos in positions:
           if previous_position is not None:
               if pos > previous_position:                       peak_passed = True
               elif pos < previous_position and peak_passed:     return False
           previous_position = pos                                                                  *)
Fixpoint sp_scan (prev : nat) (peak_passed : bool) (ps : list nat) : bool :=
  match ps with
  | [] => true
  | p :: r => if prev <? p then sp_scan p true r
              else if (p <? prev) && peak_passed then false
              else sp_scan p peak_passed r
  end.
Definition sp_scan_ok (ps : list nat) : bool :=
  match ps with [] => true | q :: r => sp_scan q false r end.

Definition sp_axis_weak (o : order) (axis : list N) : bool :=
  sp_scan_ok (map (class_pos o) axis).

Definition sp_axis_profile (p : list order) (axis : list N) : bool :=
  forallb (fun o => sp_axis_weak o axis) p.

Definition dt_soc_toc (d : ord_dt) : bool := match d with DTsoc | DTtoc => true | _ => false end.
Definition dt_soc (d : ord_dt) : bool := match d with DTsoc => true | _ => false end.

Definition is_single_peaked_axis_model (d : ord_dt) (p : list order) (axis : list N) : result bool :=
  if dt_soc_toc d then Ok (sp_axis_profile p axis) else Err TypeErr.

(* ---------------------------------------------------------------------------------------------- *)
(* sp_cons_ones_matrix: for each order, one row per max_level in range(len(order)); the row has a 1 in
   the column of every alternative of the classes 0..max_level; columns in the order of
   instance.alternatives_name (alt_map)                                                            *)
Definition sp_matrix_row (alts : list N) (o : order) (max_level : nat) : list bool :=
  map (fun a => memN a (concat (firstn (S max_level) o))) alts.
Definition sp_matrix (alts : list N) (p : list order) : list (list bool) :=
  flat_map (fun o => map (sp_matrix_row alts o) (seq 0 (length o))) p.

(* minimal consecutive-ones decision by enumeration of the column permutations (perm : list of column
   indices); the C05 package has its own richer library                                            *)
Definition sp_c1p_row_check (perm : list nat) (row : list bool) : bool :=
  ones_consecb (map (fun j => nth j row false) perm).
Definition sp_c1p_rows_check (rows : list (list bool)) (perm : list nat) : bool :=
  forallb (sp_c1p_row_check perm) rows.
Definition sp_c1p_decide (rows : list (list bool)) (ncols : nat) : bool :=
  existsb (sp_c1p_rows_check rows) (perms (seq 0 ncols)).

(* ---------------------------------------------------------------------------------------------- *)
(* witness checker and reference decider                                                           *)
Fixpoint nodupN (l : list N) : bool :=
  match l with [] => true | a :: r => negb (memN a r) && nodupN r end.

(* axis is a permutation of alts: same length, no repetition, same elements *)
Definition valid_axis (alts axis : list N) : bool :=
  (length axis =? length alts) && nodupN axis
  && forallb (fun a => memN a alts) axis && forallb (fun a => memN a axis) alts.

Definition spw_check_axis (alts : list N) (p : list order) (axis : list N) : bool :=
  valid_axis alts axis && sp_axis_profile p axis.

Definition spw_decide (alts : list N) (p : list order) : bool :=
  existsb (sp_axis_profile p) (perms alts).

(* strict profiles: flat rankings *)
Definition strictify (r : ranking) : order := map (fun a => [a]) r.
Definition sp_decide (alts : list N) (p : list ranking) : bool := spw_decide alts (map strictify p).
Definition sp_check_axis (alts : list N) (p : list ranking) (axis : list N) : bool :=
  spw_check_axis alts (map strictify p) axis.

(* restriction to a set S of alternatives (empty classes disappear) *)
Definition is_nil {T} (l : list T) : bool := match l with [] => true | _ => false end.
Definition restrict_order (S : list N) (o : order) : order :=
  filter (fun c => negb (is_nil c)) (map (filter (fun a => memN a S)) o).
Definition restrict_ranking (S : list N) (r : ranking) : ranking := filter (fun a => memN a S) r.
Definition restrict_alts (S : list N) (alts : list N) : list N := filter (fun a => memN a S) alts.

(* ---------------------------------------------------------------------------------------------- *)
(* the three recognisers as (R)-models: the type guard, then the reference verdict                 *)
Definition is_single_peaked_model (d : ord_dt) (alts : list N) (p : list ranking) : result bool :=
  if dt_soc d then Ok (sp_decide alts p) else Err TypeErr.
Definition is_single_peaked_pq_tree_model (d : ord_dt) (alts : list N) (p : list order) : result bool :=
  if dt_soc_toc d then Ok (sp_c1p_decide (sp_matrix alts p) (length alts)) else Err TypeErr.
Definition is_single_peaked_ILP_model (d : ord_dt) (alts : list N) (p : list order) : result bool :=
  if dt_soc_toc d then Ok (spw_decide alts p) else Err TypeErr.
