"""Build and run the extracted model (coq/oracle/model)."""
import fcntl
import os
import subprocess
import time

from . import proto

VERIF = os.path.dirname(os.path.dirname(os.path.dirname(os.path.abspath(__file__))))
COQ = os.path.join(VERIF, "coq")
ORACLE = os.path.join(COQ, "oracle", "model")
LOCK = os.path.join(VERIF, ".work", "build.lock")


class BuildError(Exception):
    def __init__(self, stage, log):
        super().__init__(stage)
        self.stage, self.log = stage, log


def _sh(cmd, cwd, timeout):
    p = subprocess.run(cmd, cwd=cwd, shell=True, stdout=subprocess.PIPE, stderr=subprocess.STDOUT,
                       text=True, timeout=timeout)
    return p.returncode, p.stdout


def build(targets, timeout=1500):
    """make the given .vo targets + Extract.vo and (re)compile the oracle if model.ml changed.
    Serialised by a file lock so that concurrent checks do not race in coq/."""
    os.makedirs(os.path.dirname(LOCK), exist_ok=True)
    logs = []
    with open(LOCK, "w") as lk:
        fcntl.flock(lk, fcntl.LOCK_EX)
        t0 = time.time()
        # regenerate _CoqProject / Makefile when a .v file was added or removed (e.g. after a merge)
        have = set()
        cp = os.path.join(COQ, "_CoqProject")
        if os.path.exists(cp):
            have = {l.strip() for l in open(cp) if l.strip().endswith(".v")}
        want = set()
        for root, _, files in os.walk(os.path.join(COQ, "theories")):
            for f in files:
                if f.endswith(".v"):
                    want.add(os.path.relpath(os.path.join(root, f), COQ))
        if have != want or not os.path.exists(os.path.join(COQ, "Makefile")):
            rc, out = _sh(os.path.join(VERIF, "bin", "gen-coqproject"), COQ, 120)
            logs.append(out)
            if rc != 0:
                raise BuildError("coq_makefile", out)
        # model + oracle first: it must run even if a proof is broken
        rc, out = _sh("make -j16 theories/Extract.vo 2>&1 | tail -40", COQ, timeout)
        rc2 = subprocess.run("make -q theories/Extract.vo", cwd=COQ, shell=True,
                             stdout=subprocess.DEVNULL, stderr=subprocess.DEVNULL).returncode
        logs.append(out)
        if rc2 != 0:
            raise BuildError("model", out)
        src = os.path.join(COQ, "model.ml")
        dst = os.path.join(COQ, "oracle", "model.ml")
        need = not os.path.exists(ORACLE)
        if os.path.exists(src):
            os.replace(src, dst)
            os.replace(os.path.join(COQ, "model.mli"), os.path.join(COQ, "oracle", "model.mli"))
            need = True
        if need or os.path.getmtime(os.path.join(COQ, "oracle", "main.ml")) > os.path.getmtime(ORACLE):
            rc, out = _sh("ocamlfind ocamlopt -O3 -w -a model.mli model.ml main.ml -o model 2>&1 "
                          "| grep -v 'options -O3'", os.path.join(COQ, "oracle"), 600)
            logs.append(out)
            if not os.path.exists(ORACLE):
                raise BuildError("oracle", out)
        proofs_ok, proof_log = True, ""
        if targets:
            rc, out = _sh("make -j16 " + " ".join(targets) + " 2>&1 | tail -60", COQ, timeout)
            rcq = subprocess.run("make -q " + " ".join(targets), cwd=COQ, shell=True,
                                 stdout=subprocess.DEVNULL, stderr=subprocess.DEVNULL).returncode
            if rcq != 0:
                proofs_ok, proof_log = False, out
        return {"proofs_ok": proofs_ok, "proof_log": proof_log, "build_s": round(time.time() - t0, 2)}


def run(requests, timeout=3600, chunk=None):
    """requests: list of (op, payload) -> list of decoded answers (same order)."""
    if not requests:
        return []
    data = "".join(op + " " + proto.enc(p) + "\n" for op, p in requests)
    env = dict(os.environ)
    p = subprocess.run(["bash", "-c", "ulimit -s unlimited 2>/dev/null; exec " + ORACLE], input=data,
                       stdout=subprocess.PIPE, stderr=subprocess.PIPE, text=True, timeout=timeout, env=env)
    lines = p.stdout.splitlines()
    if p.returncode != 0 or len(lines) != len(requests):
        raise BuildError("oracle-run", f"rc={p.returncode} answers={len(lines)}/{len(requests)} "
                                       f"stderr={p.stderr[-2000:]}")
    return [proto.dec(l) for l in lines]


def run_parallel(requests, nproc=8, timeout=3600):
    """Split the request list over several oracle processes (order preserved)."""
    import concurrent.futures as cf
    if len(requests) < 200 or nproc <= 1:
        return run(requests, timeout)
    k = (len(requests) + nproc - 1) // nproc
    parts = [requests[i:i + k] for i in range(0, len(requests), k)]
    with cf.ThreadPoolExecutor(len(parts)) as ex:
        res = list(ex.map(lambda part: run(part, timeout), parts))
    return [x for part in res for x in part]
