"""Helpers shared by the property modules: building instances through the public API of /repo,
mapping exceptions to the model's error codes, small combinatorial enumerators."""
import itertools
import random

from core import proto
from core.proto import ok, err, E_TYPE, E_INCOMPAT, E_VALUE, E_OTHER


def exc_code(e):
    from preflibtools.properties.decorators import PreferenceIncompatibleError
    if isinstance(e, PreferenceIncompatibleError):
        return E_INCOMPAT
    if isinstance(e, TypeError):
        return E_TYPE
    if isinstance(e, ValueError):
        return E_VALUE
    return E_OTHER


def guarded(fn, *a, **kw):
    """[0, value] or [1, code] (code 5 = an exception class the model does not know: always a mismatch)."""
    try:
        return ok(fn(*a, **kw))
    except Exception as e:  # noqa
        c = exc_code(e)
        if c == E_OTHER:
            return [1, E_OTHER, proto.text(type(e).__name__ + ": " + str(e)[:120])]
        return err(c)


def ordinal_instance(orders_mult, data_type=None, alts=None):
    """orders_mult: list of (order, mult), order = list of classes (list of ints).
    Built by direct field assignment the way the parser leaves an instance (insertion order kept)."""
    from preflibtools.instances import OrdinalInstance
    inst = OrdinalInstance()
    for o, m in orders_mult:
        t = tuple(tuple(c) for c in o)
        if t in inst.multiplicity:
            inst.multiplicity[t] += m
        else:
            inst.orders.append(t)
            inst.multiplicity[t] = m
    if alts is None:
        alts = []
        for o, _ in orders_mult:
            for c in o:
                for a in c:
                    if a not in alts:
                        alts.append(a)
    for a in alts:
        inst.alternatives_name[a] = "Alternative " + str(a)
    inst.num_alternatives = len(inst.alternatives_name)
    inst.num_voters = sum(inst.multiplicity.values())
    inst.num_unique_orders = len(inst.orders)
    inst.data_type = data_type if data_type is not None else (inst.infer_type() if inst.orders else "soc")
    return inst


def strict(o):
    """flat ranking -> order of singleton classes"""
    return [[a] for a in o]


def weak_orders(alts):
    """all complete weak orders (ordered set partitions) of alts"""
    alts = list(alts)
    if not alts:
        yield []
        return
    for k in range(1, len(alts) + 1):
        for first in itertools.combinations(alts, k):
            rest = [a for a in alts if a not in first]
            for tail in weak_orders(rest):
                yield [list(first)] + tail


def rand_weak_order(rng, alts, p_tie=0.4, complete=True):
    a = list(alts)
    rng.shuffle(a)
    if not complete and len(a) > 1:
        a = a[: rng.randint(1, len(a))]
    out = [[a[0]]]
    for x in a[1:]:
        if rng.random() < p_tie:
            out[-1].append(x)
        else:
            out.append([x])
    return out


def rand_perm(rng, alts):
    a = list(alts)
    rng.shuffle(a)
    return a


def case(op, payload, **tags):
    return {"op": op, "payload": proto.norm(payload), "tags": tags}


# ---------------------------------------------------------------------------------------------------
# content of an instance as a later caller sees it (used by the history cases: a recogniser / rule / table function
# that is asked about an instance must leave the PROFILE it was asked about in place, otherwise the next call on the
# same object answers for a different profile). Only semantic content is compared: the multiset of ballots with
# multiplicities, the counts, the names, the type. Storage order of dict keys / of the orders list and any extra
# attribute (caches) are deliberately NOT compared, so a harmless rewrite cannot trip it.
# ---------------------------------------------------------------------------------------------------
def _canon_order_list(orders):
    try:
        return sorted(orders, key=repr)
    except Exception:
        return list(orders)


def snapshot(inst):
    snap = {}
    for name in ("num_voters", "num_unique_orders", "num_unique_preferences", "num_alternatives", "num_categories",
                 "num_edges", "data_type"):
        if hasattr(inst, name):
            snap[name] = getattr(inst, name)
    for name in ("multiplicity", "alternatives_name", "categories_name"):
        if hasattr(inst, name):
            snap[name] = dict(getattr(inst, name))
    for name in ("orders", "preferences"):
        if hasattr(inst, name):
            snap[name + " (as a multiset)"] = _canon_order_list(getattr(inst, name))
    return snap


def snap_diff(before, after):
    for k in before:
        if k not in after or before[k] != after[k] or type(before[k]) is not type(after[k]):
            return "%s was %r, is now %r" % (k, before[k], after.get(k))
    return None


# ------------------------------------------------------------------------------------------------ call / edit / call
def _decoy_orders(orders, salt):
    """a profile of the same shape (same number of distinct orders, same alternatives) that differs from `orders`"""
    n = len(orders)
    if n == 0:
        return None
    i = salt % n
    o = orders[i]
    if len(o) >= 2:
        j = (salt // 7) % (len(o) - 1)
        new = o[:j] + (o[j + 1], o[j]) + o[j + 2:]
        if new not in orders:
            return orders[:i] + [new] + orders[i + 1:]
    alts = sorted({a for q in orders for c in q for a in c})
    if len(alts) < 2:
        return None
    nxt = {a: alts[(k + 1) % len(alts)] for k, a in enumerate(alts)}
    dec = [tuple(tuple(nxt[a] for a in c) for c in q) for q in orders]
    return None if dec == orders else dec


def prime_stale(inst, calls, salt):
    """call / in-place edit / call on ONE instance object.  The object first holds a decoy profile of the same shape
    (same alternatives, same number of distinct orders, same multiplicities, hence the same num_voters,
    num_unique_orders and num_alternatives); every function in `calls` is evaluated on it (answers discarded); then
    the public `orders` list and `multiplicity` table are edited in place back to the real profile.  The caller then asks
    its questions on the returned object: anything remembered about the decoy under a stamp made of counters is stale.
    Returns (instance, primed?)."""
    target = [tuple(tuple(c) for c in o) for o in inst.orders]
    if list(inst.multiplicity) != target:
        return inst, False
    mult = dict(inst.multiplicity)
    dec = _decoy_orders(target, salt)
    if dec is None:
        return inst, False
    inst.orders[:] = dec
    inst.multiplicity.clear()
    inst.multiplicity.update({d: mult[o] for d, o in zip(dec, target)})
    for f in calls:
        try:
            f(inst)
        except Exception:
            pass
    inst.orders[:] = target
    inst.multiplicity.clear()
    inst.multiplicity.update(mult)
    return inst, True


def salt_of(payload):
    import zlib
    return zlib.crc32(repr(payload).encode())
