(* Model/Relabel.v — executable helpers for property C15: renaming the alternatives of every input shape used by
   the models (orders as lists of indifference classes, flat rankings, approval ballots, multiplicity tables,
   instances of the scoring / pairwise mirror models, tree edges, Euclidean position maps).
   Executable definitions only; the lemmas are in Proofs/Relabel.v.  `f : N -> N` is the renaming; the theorems
   assume it injective (forall x y, f x = f y -> x = y). *)
From Coq Require Import List NArith.
From PrefVerif Require Import Lib.Val.
From PrefVerif Require Model.Scoring Model.Pairwise.
Import ListNotations.

Definition map_alts (f : N -> N) (alts : list N) : list N := map f alts.
(* an order = list of indifference classes, best first *)
Definition map_order (f : N -> N) (o : list (list N)) : list (list N) := map (map f) o.
(* instance.orders for weak orders *)
Definition map_profile (f : N -> N) (p : list (list (list N))) : list (list (list N)) := map (map_order f) p.
(* flat strict rankings / approval ballots / axes of a partition *)
Definition map_rankings (f : N -> N) (rs : list (list N)) : list (list N) := map (map f) rs.
(* multiplicity.items() *)
Definition map_mult (f : N -> N) (p : list (list (list N) * N)) : list (list (list N) * N) :=
  map (fun om => (map_order f (fst om), snd om)) p.
(* tree edges *)
Definition map_edges (f : N -> N) (T : list (N * N)) : list (N * N) := map (fun e => (f (fst e), f (snd e))) T.
(* keyed tables: alternative -> value *)
Definition map_keys {V : Type} (f : N -> N) (t : list (N * V)) : list (N * V) := map (fun e => (f (fst e), snd e)) t.

(* the instance read by the scoring rules (C06 / C14) *)
Definition relabel_inst (f : N -> N) (i : Scoring.inst) : Scoring.inst :=
  {| Scoring.dt := Scoring.dt i; Scoring.alts := map f (Scoring.alts i); Scoring.n_alt := Scoring.n_alt i;
     Scoring.n_vot := Scoring.n_vot i; Scoring.prof := map_mult f (Scoring.prof i) |}.

(* the instance read by the pairwise functions (C07): names keep their text, keys are renamed *)
Definition relabel_pw_inst (f : N -> N) (i : Pairwise.inst) : Pairwise.inst :=
  Pairwise.mkInst (map_keys f (Pairwise.alts_name i)) (Pairwise.num_alternatives i) (Pairwise.num_voters i)
                  (map_mult f (Pairwise.mult i)) (Pairwise.data_type i).
(* dict of dicts keyed by alternatives *)
Definition map_table (f : N -> N) (t : Pairwise.table) : Pairwise.table :=
  map (fun ar => (f (fst ar), map_keys f (snd ar))) t.
