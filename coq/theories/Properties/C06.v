(* Properties/C06.v — scoring rules return exactly the textbook winner set (statements only).

   Vocabulary (Proofs/Scoring.v): `expand p` is the full profile (each order repeated by its multiplicity);
   `voters f P` the number of voters of P whose ballot satisfies f; count_first / count_last / count_topk k the
   textbook plurality / veto / k-approval scores recomputed voter by voter; `is_max f U a` : a ∈ U maximises f
   over U (is_min: minimises).  `wf_inst` (implied by the boolean `wf_instb`) is the DESIGN §7.0 well-formedness:
   alternatives duplicate-free, header numbers agree with the data, non-empty profile, every order non-empty with
   non-empty classes over the alternatives and without repetition, multiplicities >= 1.
   Borda: `prefers o a b` = the voter with ballot o ranks a strictly above b; borda_score al P a = sum over the voters
   of the number of alternatives of al ranked strictly below a (the documented tie convention of borda_scores).
   Copeland: nprefer P a b = number of voters ranking a above b; beats P a b = nprefer P b a < nprefer P a b;
   copeland_wins al P a = number of b <> a in al that a beats (contests WON, not summed margins).
   Satisfaction approval: sav_score P a = sum over the voters approving a of 1/|approved set|, in exact rationals Qc. *)
From Coq Require Import List Arith NArith ZArith Bool Permutation.
From Coq Require Import QArith Qcanon.
From PrefVerif Require Import Lib.Val Model.Scoring Proofs.ScoreTable Proofs.Scoring Proofs.ScoringSAV
  Proofs.ScoringCopeland Proofs.ScoringPairwise.
Import ListNotations.
Local Close Scope Qc_scope.
Local Close Scope Q_scope.

(* ---- plurality ---- *)
Theorem plurality_spec : forall i, wf_inst i -> dt_in (dt i) [Soc; Toc; Soi; Toi] = true ->
  exists w, plurality_winner i = Ok w /\
            forall a, In a w <-> is_max (count_first (expand (prof i))) (alts i) a.
Proof. exact Proofs.Scoring.plurality_spec. Qed.
Print Assumptions plurality_spec.

Theorem plurality_regroup : forall i i',
  wf_inst i -> wf_inst i' -> dt_in (dt i) [Soc; Toc; Soi; Toi] = true -> dt_in (dt i') [Soc; Toc; Soi; Toi] = true ->
  (forall x, In x (alts i) <-> In x (alts i')) -> Permutation (expand (prof i)) (expand (prof i')) ->
  exists w w', plurality_winner i = Ok w /\ plurality_winner i' = Ok w' /\ forall a, In a w <-> In a w'.
Proof. exact Proofs.Scoring.plurality_regroup. Qed.
Print Assumptions plurality_regroup.

Theorem plurality_guard : forall i, dt_in (dt i) [Soc; Toc; Soi; Toi] = false -> plurality_winner i = Err Incompatible.
Proof. exact Proofs.Scoring.plurality_guard. Qed.
Print Assumptions plurality_guard.

(* ---- veto ---- *)
Theorem veto_spec : forall i, wf_inst i -> dt_in (dt i) [Soc; Toc] = true ->
  exists w, veto_winner i = Ok w /\
            forall a, In a w <-> is_min (count_last (expand (prof i))) (alts i) a.
Proof. exact Proofs.Scoring.veto_spec. Qed.
Print Assumptions veto_spec.

Theorem veto_regroup : forall i i',
  wf_inst i -> wf_inst i' -> dt_in (dt i) [Soc; Toc] = true -> dt_in (dt i') [Soc; Toc] = true ->
  (forall x, In x (alts i) <-> In x (alts i')) -> Permutation (expand (prof i)) (expand (prof i')) ->
  exists w w', veto_winner i = Ok w /\ veto_winner i' = Ok w' /\ forall a, In a w <-> In a w'.
Proof. exact Proofs.Scoring.veto_regroup. Qed.
Print Assumptions veto_regroup.

Theorem veto_guard : forall i, dt_in (dt i) [Soc; Toc] = false -> veto_winner i = Err Incompatible.
Proof. exact Proofs.Scoring.veto_guard. Qed.
Print Assumptions veto_guard.

(* ---- k-approval (strict orders, k >= 1, k may exceed the number of alternatives) ---- *)
Theorem k_approval_spec : forall i k, wf_inst i -> all_orders strictb i = true -> 1 <= k ->
  dt_in (dt i) [Soc; Soi] = true ->
  exists w, k_approval_winner i k = Ok w /\
            forall a, In a w <-> is_max (count_topk k (expand (prof i))) (alts i) a.
Proof. exact Proofs.Scoring.k_approval_spec. Qed.
Print Assumptions k_approval_spec.

Theorem k_approval_regroup : forall i i' k,
  wf_inst i -> wf_inst i' -> all_orders strictb i = true -> all_orders strictb i' = true -> 1 <= k ->
  dt_in (dt i) [Soc; Soi] = true -> dt_in (dt i') [Soc; Soi] = true ->
  (forall x, In x (alts i) <-> In x (alts i')) -> Permutation (expand (prof i)) (expand (prof i')) ->
  exists w w', k_approval_winner i k = Ok w /\ k_approval_winner i' k = Ok w' /\ forall a, In a w <-> In a w'.
Proof. exact Proofs.Scoring.k_approval_regroup. Qed.
Print Assumptions k_approval_regroup.

Theorem k_approval_guard : forall i k, dt_in (dt i) [Soc; Soi] = false -> k_approval_winner i k = Err Incompatible.
Proof. exact Proofs.Scoring.k_approval_guard. Qed.
Print Assumptions k_approval_guard.

(* ---- approval ---- *)
Theorem approval_spec : forall i, wf_inst i -> is_approval i = Ok true -> dt_in (dt i) [Soc; Toc; Soi; Toi] = true ->
  exists w, approval_winner i = Ok w /\
            forall a, In a w <-> is_max (count_first (expand (prof i))) (alts i) a.
Proof. exact Proofs.Scoring.approval_spec. Qed.
Print Assumptions approval_spec.

Theorem approval_regroup : forall i i',
  wf_inst i -> wf_inst i' -> is_approval i = Ok true -> is_approval i' = Ok true ->
  dt_in (dt i) [Soc; Toc; Soi; Toi] = true -> dt_in (dt i') [Soc; Toc; Soi; Toi] = true ->
  (forall x, In x (alts i) <-> In x (alts i')) -> Permutation (expand (prof i)) (expand (prof i')) ->
  exists w w', approval_winner i = Ok w /\ approval_winner i' = Ok w' /\ forall a, In a w <-> In a w'.
Proof. exact Proofs.Scoring.approval_regroup. Qed.
Print Assumptions approval_regroup.

Theorem approval_guard : forall i, prof i <> [] -> dt_in (dt i) [Soc; Toc; Soi; Toi] = false ->
  approval_winner i = Err Incompatible.
Proof. exact Proofs.Scoring.approval_guard. Qed.
Print Assumptions approval_guard.

Theorem approval_guard_shape : forall i, is_approval i = Ok false -> approval_winner i = Err Incompatible.
Proof. exact Proofs.Scoring.approval_guard_shape. Qed.
Print Assumptions approval_guard_shape.

(* ---- Borda (complete orders: soc, toc) ---- *)
Theorem borda_spec : forall i, wf_inst i -> wf_complete i -> dt_in (dt i) [Soc; Toc] = true ->
  exists w, borda_winner i = Ok w /\
            forall a, In a w <-> is_maxZ (borda_score (alts i) (expand (prof i))) (alts i) a.
Proof. exact Proofs.Scoring.borda_spec. Qed.
Print Assumptions borda_spec.

Theorem borda_regroup : forall i i',
  wf_inst i -> wf_inst i' -> wf_complete i -> wf_complete i' ->
  dt_in (dt i) [Soc; Toc] = true -> dt_in (dt i') [Soc; Toc] = true ->
  alts i = alts i' -> Permutation (expand (prof i)) (expand (prof i')) ->
  exists w w', borda_winner i = Ok w /\ borda_winner i' = Ok w' /\ forall a, In a w <-> In a w'.
Proof. exact Proofs.Scoring.borda_regroup. Qed.
Print Assumptions borda_regroup.

Theorem borda_guard : forall i, dt_in (dt i) [Soc; Toc] = false -> borda_winner i = Err Incompatible.
Proof. exact Proofs.Scoring.borda_guard. Qed.
Print Assumptions borda_guard.

(* ---- Copeland (soc): number of pairwise contests won ---- *)
Theorem copeland_spec : forall i, wf_inst i -> dt_in (dt i) [Soc] = true ->
  exists w, copeland_winner i = Ok w /\
            forall a, In a w <-> is_max (copeland_wins (alts i) (expand (prof i))) (alts i) a.
Proof. exact Proofs.ScoringCopeland.copeland_spec. Qed.
Print Assumptions copeland_spec.

Theorem copeland_regroup : forall i i',
  wf_inst i -> wf_inst i' -> dt_in (dt i) [Soc] = true -> dt_in (dt i') [Soc] = true ->
  alts i = alts i' -> Permutation (expand (prof i)) (expand (prof i')) ->
  exists w w', copeland_winner i = Ok w /\ copeland_winner i' = Ok w' /\ forall a, In a w <-> In a w'.
Proof. exact Proofs.ScoringCopeland.copeland_regroup. Qed.
Print Assumptions copeland_regroup.

Theorem copeland_guard : forall i, dt_in (dt i) [Soc] = false -> copeland_winner i = Err Incompatible.
Proof. exact Proofs.ScoringCopeland.copeland_guard. Qed.
Print Assumptions copeland_guard.

(* ---- satisfaction approval (approval profiles; exact rationals) ---- *)
Theorem sav_spec : forall i, wf_inst i -> is_approval i = Ok true ->
  exists w, sav_winner i = Ok w /\ forall a, In a w <-> is_maxQ (sav_score (expand (prof i))) (alts i) a.
Proof. exact Proofs.ScoringSAV.sav_spec. Qed.
Print Assumptions sav_spec.

Theorem sav_regroup : forall i i',
  wf_inst i -> wf_inst i' -> is_approval i = Ok true -> is_approval i' = Ok true ->
  (forall x, In x (alts i) <-> In x (alts i')) -> Permutation (expand (prof i)) (expand (prof i')) ->
  exists w w', sav_winner i = Ok w /\ sav_winner i' = Ok w' /\ forall a, In a w <-> In a w'.
Proof. exact Proofs.ScoringSAV.sav_regroup. Qed.
Print Assumptions sav_regroup.

Theorem sav_guard : forall i, dt_in (dt i) [Toc; Soc; Toi; Soi; Cat] = false -> sav_winner i = Err Incompatible.
Proof. exact Proofs.ScoringSAV.sav_guard. Qed.
Print Assumptions sav_guard.

Theorem sav_guard_shape : forall i, is_approval i = Ok false -> sav_winner i = Err Incompatible.
Proof. exact Proofs.ScoringSAV.sav_guard_shape. Qed.
Print Assumptions sav_guard_shape.

(* ---- the guard of the two approval rules decides the documented notion of an approval profile:
        every ballot is a single class, or every ballot is complete with at most two classes ---- *)
Theorem is_approval_spec : forall i, wf_inst i -> dt_in (dt i) [Toc; Soc; Toi; Soi; Cat] = true ->
  (is_approval i = Ok true <->
   (forall om, In om (prof i) -> length (fst om) = 1) \/
   ((forall om, In om (prof i) -> length (fst om) <= 2) /\
    (forall om, In om (prof i) -> length (concat (fst om)) = length (alts i)))).
Proof. exact Proofs.Scoring.is_approval_spec. Qed.
Print Assumptions is_approval_spec.

(* ---- consolidation with C07: the mirrors of borda_scores / copeland_scores used above are the SAME tables as
        Model/Pairwise.v's (PW), whose voter-level meaning Properties/C07.v proves.  `to_pw i` is the instance i
        seen as a C07 instance; PW.margin p a b = #voters a above b - #voters b above a; PW.borda_total = the
        Borda total of borda_spec (C07); pw_wins al p a = number of b <> a in al with PW.margin p a b > 0. ---- *)
Theorem borda_scores_agree : forall i, borda_scores i = PW.borda_scores (to_pw i).
Proof. exact Proofs.ScoringPairwise.borda_scores_agree. Qed.
Print Assumptions borda_scores_agree.

Theorem borda_lookup_agree : forall i a,
  lookup 0%Z (tbl_adds Z.add 0%Z [] (borda_events (n_alt i) (prof i))) a = PWP.getd (PW.borda_table (to_pw i)) a.
Proof. exact Proofs.ScoringPairwise.borda_lookup_agree. Qed.
Print Assumptions borda_lookup_agree.

Theorem copeland_scores_agree : forall i, wf_inst i -> copeland_scores i = PW.copeland_scores (to_pw i).
Proof. exact Proofs.ScoringPairwise.copeland_scores_agree. Qed.
Print Assumptions copeland_scores_agree.

Theorem copeland_entry_agree : forall i a b, wf_inst i ->
  PW.tget (copeland_table (alts i) (prof i)) a b = PW.tget (PW.copeland_table (to_pw i)) a b.
Proof. exact Proofs.ScoringPairwise.copeland_entry_agree. Qed.
Print Assumptions copeland_entry_agree.

Theorem borda_winner_pairwise : forall i, wf_inst i -> wf_complete i -> dt_in (dt i) [Soc; Toc] = true ->
  exists w, borda_winner i = Ok w /\
            forall a, In a w <-> is_maxZ (PW.borda_total (Z.of_N (n_alt i)) (prof i)) (alts i) a.
Proof. exact Proofs.ScoringPairwise.borda_winner_pairwise. Qed.
Print Assumptions borda_winner_pairwise.

Theorem copeland_winner_pairwise : forall i, wf_inst i -> dt_in (dt i) [Soc] = true ->
  exists w, copeland_winner i = Ok w /\ forall a, In a w <-> is_max (pw_wins (alts i) (prof i)) (alts i) a.
Proof. exact Proofs.ScoringPairwise.copeland_winner_pairwise. Qed.
Print Assumptions copeland_winner_pairwise.

(* ---- the hypotheses are satisfiable by non-trivial inputs ---- *)
(* the profile on which summed margins and contests won differ (fix fbdf4f2): 1 wins both contests *)
Definition ex_soc : inst :=
  {| dt := Soc; alts := [1; 2; 3]%N; n_alt := 3; n_vot := 3;
     prof := [ ([[1];[3];[2]], 2); ([[3];[2];[1]], 1) ]%N |}.
Example ex_soc_hyps : wf_inst ex_soc /\ wf_complete ex_soc /\ all_orders strictb ex_soc = true.
Proof. split; [apply wf_instb_spec; vm_compute; reflexivity|split; vm_compute; reflexivity]. Qed.
Example ex_soc_winners :
  copeland_winner ex_soc = Ok [1%N] /\ plurality_winner ex_soc = Ok [1%N] /\ veto_winner ex_soc = Ok [3%N] /\
  borda_winner ex_soc = Ok [1%N; 3%N] /\ k_approval_winner ex_soc 2 = Ok [3%N] /\
  approval_winner ex_soc = Err Incompatible.
Proof. repeat split; vm_compute; reflexivity. Qed.

(* weak complete orders (toc): ties inside classes, equal multiplicities *)
Definition ex_toc : inst :=
  {| dt := Toc; alts := [1; 2; 3]%N; n_alt := 3; n_vot := 4;
     prof := [ ([[1; 2];[3]], 2); ([[3];[1; 2]], 2) ]%N |}.
Example ex_toc_hyps : wf_inst ex_toc /\ wf_complete ex_toc /\ is_approval ex_toc = Ok true.
Proof. split; [apply wf_instb_spec; vm_compute; reflexivity|split; vm_compute; reflexivity]. Qed.
Example ex_toc_winners :
  plurality_winner ex_toc = Ok [1%N; 2%N; 3%N] /\ borda_winner ex_toc = Ok [3%N] /\
  approval_winner ex_toc = Ok [1%N; 2%N; 3%N] /\ sav_winner ex_toc = Ok [3%N] /\
  copeland_winner ex_toc = Err Incompatible /\ k_approval_winner ex_toc 1 = Err Incompatible.
Proof. repeat split; vm_compute; reflexivity. Qed.

(* the exact tie 1/2 + 1/3 + 2/3 = 1/2 + 2/3 + 1/3 = 3/2 that float accumulation lost (fix 24ea266) *)
Definition ex_sav : inst :=
  {| dt := Toi; alts := [1; 2; 3; 4]%N; n_alt := 4; n_vot := 5;
     prof := [ ([[1; 3]], 1); ([[1; 2; 4]], 1); ([[1; 3; 4]], 2); ([[2; 3; 4]], 1) ]%N |}.
Example ex_sav_hyps : wf_inst ex_sav /\ is_approval ex_sav = Ok true /\ sav_winner ex_sav = Ok [1%N; 3%N].
Proof. split; [apply wf_instb_spec; vm_compute; reflexivity|split; vm_compute; reflexivity]. Qed.

(* truncated strict ballots (soi), k larger than the number of alternatives *)
Definition ex_soi : inst :=
  {| dt := Soi; alts := [1; 2; 3]%N; n_alt := 3; n_vot := 6;
     prof := [ ([[1]], 2); ([[2];[1]], 1); ([[3];[2];[1]], 3) ]%N |}.
Example ex_soi_hyps : wf_inst ex_soi /\ all_orders strictb ex_soi = true /\
  k_approval_winner ex_soi 5 = Ok [1%N] /\ k_approval_winner ex_soi 1 = Ok [3%N] /\ veto_winner ex_soi = Err Incompatible.
Proof. split; [apply wf_instb_spec; vm_compute; reflexivity|repeat split; vm_compute; reflexivity]. Qed.
