(* Model/OrdState.v — mirror model of the incremental construction of an OrdinalInstance (C02):
   preflibtools/instances/preflibinstance/ordinal.py  append_order, append_order_array, append_order_list,
   append_vote_map (and populate_* = append_vote_map of the sampler's vote map), infer_type, vote_map,
   full_profile, flatten_strict;  preflibtools/properties/basic.py  ballot-size statistics, is_strict,
   is_complete;  preflibtools/instances/sanity.py  orders().
   Executable definitions only; the proofs are in Proofs/OrdState.v. *)
From Coq Require Import String List Arith NArith Bool.
From PrefVerif Require Import Lib.Val Lib.Dec Lib.PyStr.
Import ListNotations.

Definition order := list (list N).            (* tuple of indifference classes, best first *)

(* data_type; DNone is the value Python's infer_type returns by falling off its last `if`
   (Proofs: never reached) *)
Inductive dt := Soc | Soi | Toc | Toi | DNone.

Definition dt_eqb (a b : dt) : bool :=
  match a, b with
  | Soc, Soc | Soi, Soi | Toc, Toc | Toi, Toi | DNone, DNone => true
  | _, _ => false
  end.

Fixpoint list_eqb {T} (e : T -> T -> bool) (a b : list T) : bool :=
  match a, b with
  | [], [] => true
  | x :: a', y :: b' => e x y && list_eqb e a' b'
  | _, _ => false
  end.
Definition class_eqb : list N -> list N -> bool := list_eqb N.eqb.
Definition order_eqb : order -> order -> bool := list_eqb class_eqb.

Record state := mk {
  alts   : list (N * text);       (* alternatives_name, insertion order *)
  n_alt  : N;                     (* num_alternatives *)
  n_vot  : N;                     (* num_voters *)
  ords   : list order;            (* orders *)
  mult   : list (order * N);      (* multiplicity (dict, insertion order) *)
  n_uniq : N;                     (* num_unique_orders *)
  dtype  : dt                     (* data_type *)
}.

(* OrdinalInstance(): data_type = "toi" on the fresh instance *)
Definition init : state := mk [] 0 0 [] [] 0 Toi.

(* ---- alternatives_name ---- *)
Definition alt_name (a : N) : text := lit "Alternative " ++ show_N a.
Definition has_alt (al : list (N * text)) (a : N) : bool := existsb (fun p => N.eqb (fst p) a) al.
(* if alt not in self.alternatives_name: self.alternatives_name[alt] = "Alternative " + str(alt) *)
Definition add_alt (al : list (N * text)) (a : N) : list (N * text) :=
  if has_alt al a then al else al ++ [(a, alt_name a)].
Definition add_alts (al : list (N * text)) (l : list N) : list (N * text) := fold_left add_alt l al.

(* ---- the multiplicity dict ---- *)
Fixpoint lookup (m : list (order * N)) (o : order) : option N :=
  match m with
  | [] => None
  | (o', k) :: r => if order_eqb o' o then Some k else lookup r o
  end.
Definition has_key (m : list (order * N)) (o : order) : bool :=
  match lookup m o with Some _ => true | None => false end.
(* m[o] += k   (KeyError when o is absent: the callers below only use it on present keys, or —
   append_vote_map — on members of `orders`, which are keys under the invariant; absent = unchanged) *)
Fixpoint incr (m : list (order * N)) (o : order) (k : N) : list (order * N) :=
  match m with
  | [] => []
  | (o', c) :: r => if order_eqb o' o then (o', (c + k)%N) :: r else (o', c) :: incr r o k
  end.
(* m[o] = k *)
Fixpoint assign (m : list (order * N)) (o : order) (k : N) : list (order * N) :=
  match m with
  | [] => [(o, k)]
  | (o', c) :: r => if order_eqb o' o then (o', k) :: r else (o', c) :: assign r o k
  end.
(* m[o]  (KeyError when absent -> 0; never absent for o in orders under the invariant) *)
Definition mget (m : list (order * N)) (o : order) : N :=
  match lookup m o with Some k => k | None => 0%N end.
Definition in_orders (os : list order) (o : order) : bool := existsb (order_eqb o) os.

(* ---- infer_type ---- *)
Definition max_class_len (o : order) : nat := fold_right Nat.max 0 (map (@length N) o).
Definition ballot_size (o : order) : nat := length (concat o).
(*  strict = complete = True
    for order in self.orders:
        if max(len(c) for c in order) != 1: strict = False          (ValueError on an empty order)
        if len([alt for c in order for alt in c]) != self.num_alternatives: complete = False
        if not strict and not complete: return "toi"
    if strict and complete: return "soc" ; if strict and not complete: return "soi"
    if not strict and complete: return "toc"   (else: None) *)
Fixpoint infer_loop (na : N) (os : list order) (st co : bool) : result dt :=
  match os with
  | [] => Ok (if st && co then Soc else if st && negb co then Soi else if negb st && co then Toc else DNone)
  | o :: r =>
      match o with
      | [] => Err ValueErr
      | _ :: _ =>
          let st' := if negb (max_class_len o =? 1) then false else st in
          let co' := if negb (N.eqb (N.of_nat (ballot_size o)) na) then false else co in
          if negb st' && negb co' then Ok Toi else infer_loop na r st' co'
      end
  end.
Definition infer_type (s : state) : result dt := infer_loop (n_alt s) (ords s) true true.

(* the data type a multiset of votes has by definition (specification, no loop):
   strict iff every class of every vote is a singleton, complete iff every vote ranks as many
   alternatives as occur in the multiset *)
Definition strict_o (o : order) : bool := max_class_len o =? 1.
Definition complete_o (na : N) (o : order) : bool := N.eqb (N.of_nat (ballot_size o)) na.
Definition type_code (strict complete : bool) : dt :=
  if strict then (if complete then Soc else Soi) else (if complete then Toc else Toi).
Fixpoint dedup (l : list N) : list N :=
  match l with
  | [] => []
  | x :: r => if existsb (N.eqb x) r then dedup r else x :: dedup r
  end.
Definition spec_type (ms : list order) : dt :=
  type_code (forallb strict_o ms)
            (forallb (complete_o (N.of_nat (length (dedup (concat (concat ms)))))) ms).

(* self.data_type = self.infer_type(): when infer_type raises, the exception leaves every method
   with all other fields already updated and data_type unchanged *)
Definition set_type (s : state) : state :=
  mk (alts s) (n_alt s) (n_vot s) (ords s) (mult s) (n_uniq s)
     (match infer_type s with Ok d => d | Err _ => dtype s end).
Definition raises (s : state) : bool := negb (is_ok (infer_type s)).

(* ---- the four entry points ---- *)
(*  if order in self.multiplicity: self.multiplicity[order] += 1
    else: self.orders.append(order); self.multiplicity[order] = 1; self.num_unique_orders += 1 *)
Definition add_one (s : state) (o : order) : state :=
  if has_key (mult s) o
  then mk (alts s) (n_alt s) (n_vot s) (ords s) (incr (mult s) o 1) (n_uniq s) (dtype s)
  else mk (alts s) (n_alt s) (n_vot s) (ords s ++ [o]) (assign (mult s) o 1) (n_uniq s + 1)%N (dtype s).

(* tuple((a,) for a in order) *)
Definition strictify (l : list N) : order := map (fun a => [a]) l.

(* header part shared by append_order / append_order_array / append_order_list:
   register the alternatives `l` (for the two batch methods `l` enumerates a Python set: the
   insertion order of new names is then unspecified; the model inserts in order of first
   occurrence and the correspondence compares alternatives_name as a set of pairs), recount
   num_alternatives, add `nv` voters *)
Definition register (s : state) (l : list N) (nv : N) : state :=
  let al := add_alts (alts s) l in
  mk al (N.of_nat (length al)) (n_vot s + nv)%N (ords s) (mult s) (n_uniq s) (dtype s).

(* one iteration of append_vote_map's loop *)
Definition vm_item (s : state) (p : order * N) : state :=
  let (o, k) := p in
  let om :=
    if negb (in_orders (ords s) o)                       (* if order not in self.orders *)
    then (ords s ++ [o], assign (mult s) o k)
    else (ords s, incr (mult s) o k) in
  mk (add_alts (alts s) (concat o)) (n_alt s) (n_vot s + k)%N (fst om) (snd om) (n_uniq s) (dtype s).

(* ---- instances/sampling.py: prefsampling_ordinal_wrapper ----
     votes = sampler(... sampler_params)          (rows: one ranking per voter)
     vote_map = defaultdict(lambda: 0)
     for order in votes:
         order = tuple((a,) for a in order)
         vote_map[order] += 1        (absent key: the default 0 is inserted at the end, then becomes 1)
     return vote_map
   populate_X(...) = append_vote_map(generate_X(...)) = append_vote_map(wrapper(sampler rows)) *)
Definition bump (vm : list (order * N)) (o : order) : list (order * N) :=
  if has_key vm o then incr vm o 1 else assign vm o 1.
Definition wrapper (rows : list (list N)) : list (order * N) :=
  fold_left (fun vm r => bump vm (strictify r)) rows [].

Inductive op :=
| AppendOrder (o : list N)                    (* append_order(order): a strict order, flat *)
| AppendArray (rows : list (list N))          (* append_order_array(2-D array) *)
| AppendList (os : list order)                (* append_order_list(list of tuples of tuples) *)
| AppendVoteMap (vm : list (order * N)).      (* append_vote_map(dict); populate_* *)

Definition step (s : state) (o : op) : state :=
  match o with
  | AppendOrder o => set_type (add_one (register s o 1) (strictify o))
  | AppendArray rows =>
      set_type (fold_left add_one (map strictify rows) (register s (concat rows) (N.of_nat (length rows))))
  | AppendList os =>
      set_type (fold_left add_one os (register s (concat (concat os)) (N.of_nat (length os))))
  | AppendVoteMap vm =>
      let s1 := fold_left vm_item vm s in
      set_type (mk (alts s1) (N.of_nat (length (alts s1))) (n_vot s1) (ords s1) (mult s1)
                   (N.of_nat (length (mult s1))) (dtype s1))
  end.
(* does the call raise (ValueError out of infer_type, only possible with an empty order)? *)
Definition step_raises (s : state) (o : op) : bool :=
  match o with
  | AppendOrder o => raises (add_one (register s o 1) (strictify o))
  | AppendArray rows =>
      raises (fold_left add_one (map strictify rows) (register s (concat rows) (N.of_nat (length rows))))
  | AppendList os =>
      raises (fold_left add_one os (register s (concat (concat os)) (N.of_nat (length os))))
  | AppendVoteMap vm =>
      let s1 := fold_left vm_item vm s in
      raises (mk (alts s1) (N.of_nat (length (alts s1))) (n_vot s1) (ords s1) (mult s1)
                 (N.of_nat (length (mult s1))) (dtype s1))
  end.

Definition run (ops : list op) : state := fold_left step ops init.

(* ---- the votes an operation adds (specification side) ---- *)
Definition expand (vm : list (order * N)) : list order :=
  flat_map (fun p => repeat (fst p) (N.to_nat (snd p))) vm.
Definition votes (o : op) : list order :=
  match o with
  | AppendOrder o => [strictify o]
  | AppendArray rows => map strictify rows
  | AppendList os => os
  | AppendVoteMap vm => expand vm
  end.
Definition votes_of (ops : list op) : list order := flat_map votes ops.

(* ---- views ---- *)
Definition vote_map (s : state) : list (order * N) := map (fun o => (o, mget (mult s) o)) (ords s).
Definition full_profile (s : state) : list order :=
  flat_map (fun o => repeat o (N.to_nat (mget (mult s) o))) (ords s).
(* tuple(indif_class[0] for indif_class in order)   (IndexError on an empty class -> 0) *)
Definition flatten_strict (s : state) : list (list N * N) :=
  map (fun o => (map (fun c => hd 0%N c) o, mget (mult s) o)) (ords s).

(* ---- properties/basic.py ---- *)
Definition list_max0 (l : list nat) : nat := fold_right Nat.max 0 l.
Definition list_min_r (l : list nat) : result nat :=          (* min([]) raises ValueError *)
  match l with [] => Err ValueErr | x :: r => Ok (fold_right Nat.min x r) end.
Definition list_max_r (l : list nat) : result nat :=
  match l with [] => Err ValueErr | x :: r => Ok (fold_right Nat.max x r) end.
Definition largest_ballot (s : state) : result nat := list_max_r (map ballot_size (ords s)).
Definition smallest_ballot (s : state) : result nat := list_min_r (map ballot_size (ords s)).
Definition num_indif (o : order) : nat := length (filter (fun p => 1 <? length p) o).
Definition max_num_indif (s : state) : nat := get 0 (list_max_r (map num_indif (ords s) ++ [0])).
Definition min_num_indif (s : state) : nat :=
  get 0 (list_min_r (map num_indif (ords s) ++ [N.to_nat (n_alt s)])).
Definition class_sizes (s : state) : list nat :=
  filter (fun n => 0 <? n) (map (@length N) (concat (ords s))).
Definition largest_indif (s : state) : nat := get 0 (list_max_r (class_sizes s ++ [0])).
Definition smallest_indif (s : state) : nat := get 0 (list_min_r (class_sizes s ++ [N.to_nat (n_alt s)])).
Definition is_strict (s : state) : bool := largest_indif s =? 1.
Definition is_complete (s : state) : result bool :=
  rmap (fun m => N.eqb (N.of_nat m) (n_alt s)) (smallest_ballot s).

(* ---- sanity.orders ---- *)
Fixpoint nodup_orders (l : list order) : bool :=
  match l with
  | [] => true
  | x :: r => negb (in_orders r x) && nodup_orders r
  end.
Definition sum_N (l : list N) : N := fold_right N.add 0%N l.
Definition order_alts (s : state) : list N := dedup (concat (concat (ords s))).
Definition is_complete_type (d : dt) : bool := match d with Soc | Toc => true | _ => false end.
Definition is_strict_type (d : dt) : bool := match d with Soc | Soi => true | _ => false end.
(* the per-order loop at the end of sanity.orders *)
Definition sanity_order (s : state) (o : order) : bool :=
  let app := concat o in
  let uniq := length (dedup app) in
  (N.of_nat (length app) <=? n_alt s)%N
  && (length app <=? uniq)
  && (if is_complete_type (dtype s) then (N.of_nat uniq <=? n_alt s)%N else true)
  && (if is_strict_type (dtype s) then max_class_len o =? 1 else true).
(* one boolean per assertion, in the order of the source:
   len(orders)=len(multiplicity); num_voters=sum; num_unique_orders=len(orders);
   |alternatives in orders| <= num_alternatives; data_type = infer_type(); orders duplicate-free;
   the per-order checks.  ("0 appears as an alternative" is a label check, kept separate.) *)
Definition sanity_checks (s : state) : list bool :=
  [ length (ords s) =? length (mult s);
    N.eqb (n_vot s) (sum_N (map snd (mult s)));
    N.eqb (n_uniq s) (N.of_nat (length (ords s)));
    (N.of_nat (length (order_alts s)) <=? n_alt s)%N;
    match infer_type s with Ok d => dt_eqb (dtype s) d | Err _ => false end;
    nodup_orders (ords s);
    forallb (sanity_order s) (ords s) ].
Definition sanity_ok (s : state) : bool := forallb (fun b => b) (sanity_checks s).
Definition sanity_zero_ok (s : state) : bool := negb (existsb (N.eqb 0) (order_alts s)).

(* ---- recompute_cardinality_param (maintenance call; Proofs: the identity on every reachable state) ----
     num_voters = 0
     for order in self.orders: num_voters += self.multiplicity[order]
     self.num_voters = num_voters ; self.num_unique_orders = len(set(self.orders)) *)
Fixpoint dedup_o (l : list order) : list order :=
  match l with
  | [] => []
  | x :: r => if in_orders r x then dedup_o r else x :: dedup_o r
  end.
Definition recompute (s : state) : state :=
  mk (alts s) (n_alt s) (sum_N (map (mget (mult s)) (ords s))) (ords s) (mult s)
     (N.of_nat (length (dedup_o (ords s)))) (dtype s).
