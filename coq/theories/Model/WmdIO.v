(* Model/WmdIO.v — mirror model of WeightedDiGraph / MatchingInstance.parse / MatchingInstance.write
   (preflibtools/instances/preflibinstance/matching.py) together with PrefLibInstance.parse_lines
   (instance.py), for properties C09 and C10.  Executable definitions only.

   Weights are an abstract type W with show_w (= "{}".format(weight) = repr of a float) and read_w
   (= float(token), None = ValueError).  The graph is the pair of Python dicts
     node_mapping : node -> set of neighbours     (list (Z * list Z), insertion order, sets as
                                                   duplicate-free lists in insertion order)
     weights      : (node, node) -> weight        (list ((Z * Z) * W), insertion order)
   with the overwrite semantics of add_node / add_edge.  Node ids are Python ints of either sign (Z): the writer
   prints them with str(), the parser reads them with int(); the keys of alternatives_name stay N because the
   header pattern (\d+) only matches unsigned ids (a negative node cannot carry a name). *)
From Coq Require Import List NArith ZArith Bool String.
From PrefVerif Require Import Lib.Val Lib.Dec Lib.DecZ Lib.PyStr Model.Meta.
Import ListNotations.

(* ---- sorted(list of ints): insertion sort (proved to sort in Proofs/WmdIO.v) ---- *)
Fixpoint insert_Z (x : Z) (l : list Z) : list Z :=
  match l with
  | [] => [x]
  | y :: r => if Z.leb x y then x :: l else y :: insert_Z x r
  end.
Fixpoint isort_Z (l : list Z) : list Z :=
  match l with
  | [] => []
  | x :: r => insert_Z x (isort_Z r)
  end.

(* int(s) on a node id: optional "-" and ASCII digits, surrounding whitespace ignored *)
Definition py_int_Z (s : text) : result Z :=
  match read_Z (strip s) with Some z => Ok z | None => Err ValueErr end.

(* ---- node_mapping ---- *)
Definition nmap := list (Z * list Z).

Definition peqb (a b : Z * Z) : bool := Z.eqb (fst a) (fst b) && Z.eqb (snd a) (snd b).

Definition has_node (n : Z) (g : nmap) : bool := existsb (fun p => Z.eqb n (fst p)) g.
(* self.node_mapping[n]  (KeyError is outside the domain: every use below is guarded by add_node or
   iterates over the keys) *)
Definition nbrs (g : nmap) (n : Z) : list Z :=
  match assoc_get Z.eqb n g with Some s => s | None => [] end.

(* add_node: if node not in self.node_mapping: self.node_mapping[node] = set() *)
Definition add_node (n : Z) (g : nmap) : nmap := if has_node n g then g else g ++ [(n, [])].
(* set.add *)
Definition set_add (m : Z) (s : list Z) : list Z := if existsb (Z.eqb m) s then s else s ++ [m].
(* self.node_mapping[n].add(m) *)
Fixpoint nb_add (n m : Z) (g : nmap) : nmap :=
  match g with
  | [] => []
  | (k, s) :: r => if Z.eqb n k then (k, set_add m s) :: r else (k, s) :: nb_add n m r
  end.
(* the node_mapping part of add_edge(n1, n2, _) *)
Definition add_edge_nodes (n1 n2 : Z) (g : nmap) : nmap := nb_add n1 n2 (add_node n2 (add_node n1 g)).

(* sum(len(edge_set) for edge_set in self.node_mapping.values()) *)
Fixpoint num_stored (g : nmap) : N :=
  match g with
  | [] => 0%N
  | (_, s) :: r => (N.of_nat (List.length s) + num_stored r)%N
  end.

(* the order in which write visits the edges: nodes sorted, out-neighbours sorted *)
Definition edge_keys (g : nmap) : list (Z * Z) :=
  flat_map (fun n => map (pair n) (isort_Z (nbrs g n))) (isort_Z (keys g)).

(* line.startswith("#") *)
Definition is_hash_line (line : text) : bool := startswith (lit "#") line.

Section Wmd.
  Variable W : Type.
  Variable show_w : W -> text.            (* "{}".format(weight) *)
  Variable read_w : text -> option W.     (* float(token); None = ValueError *)

  Definition wtab := list ((Z * Z) * W).

  Record winst := mkW {
    w_meta : meta;                        (* the PrefLibInstance fields *)
    w_num_edges : N;
    w_nodes : nmap;                       (* node_mapping *)
    w_weights : wtab                      (* weights *)
  }.

  (* add_edge(node1, node2, weight) *)
  Definition add_edge (n1 n2 : Z) (w : W) (g : nmap * wtab) : nmap * wtab :=
    (add_edge_nodes n1 n2 (fst g), assoc_set peqb (n1, n2) w (snd g)).

  (* ------------------------------------------------------------------------------------------ *)
  (* MatchingInstance.write                                                                       *)
  (* "{}, {}, {}\n".format(vertex1, vertex2, weight) *)
  Definition edge_line (n m : Z) (w : W) : text :=
    show_Z n ++ lit ", " ++ show_Z m ++ lit ", " ++ show_w w ++ nl.

  (* one written line per element of outgoing_edges(n); self.weights[(n, m)] of a stored neighbour
     without weight entry is a KeyError in Python — outside the domain (see wmd_write_ok) *)
  Definition edge_text (wt : wtab) (k : Z * Z) : text :=
    match assoc_get peqb k wt with
    | Some w => edge_line (fst k) (snd k) w
    | None => []
    end.

  Definition count_lines (i : winst) : text :=
    lit "# NUMBER ALTERNATIVES: " ++ show_N (num_alternatives (w_meta i)) ++ nl ++
    lit "# NUMBER EDGES: " ++ show_N (w_num_edges i) ++ nl.

  Definition wmd_write (i : winst) : text :=
    write_metadata (w_meta i) ++ count_lines i ++ write_alt_names (alt_names (w_meta i)) ++
    flat_map (edge_text (w_weights i)) (edge_keys (w_nodes i)).

  (* write raises no KeyError: every stored neighbour has a weight *)
  Definition wmd_write_ok (i : winst) : bool :=
    forallb (fun k => match assoc_get peqb k (w_weights i) with Some _ => true | None => false end)
            (edge_keys (w_nodes i)).

  (* ------------------------------------------------------------------------------------------ *)
  (* MatchingInstance.parse                                                                       *)

  (* the header loop.  Returns the metadata, num_edges and lines[i:] for the final value of i:
     the first non-header line onwards — or, when every line is a header line, the LAST line alone
     (the loop variable keeps its last value len(lines)-1), or [] for an empty list. *)
  Fixpoint wmd_header (ac : bool) (m : meta) (ne : N) (ls : list text) : result (meta * N * list text) :=
    match ls with
    | [] => Ok (m, ne, [])
    | l :: r =>
      let line := strip l in
      if is_hash_line line then
        rbind (if startswith (lit "# NUMBER EDGES") line
               then rmap (fun k => (m, k)) (py_int (drop 15 line))
               else rmap (fun m' => (m', ne)) (parse_metadata ac m line))
              (fun st =>
                 match r with
                 | [] => Ok (fst st, snd st, [l])
                 | _ :: _ => wmd_header ac (fst st) (snd st) r
                 end)
      else Ok (m, ne, ls)
    end.

  (* (vertex1, vertex2, weight) = line.strip().replace(" ", "").split(",") ; int, int, float *)
  Definition parse_edge_line (l : text) : result (Z * Z * W) :=
    match split_on 44 (remove_sp (strip l)) with
    | [a; b; c] =>
      rbind (py_int_Z a) (fun n1 =>
      rbind (py_int_Z b) (fun n2 =>
      match read_w c with
      | Some w => Ok (n1, n2, w)
      | None => Err ValueErr
      end))
    | _ => Err ValueErr
    end.

  Fixpoint parse_edges (ls : list text) (g : nmap * wtab) : result (nmap * wtab) :=
    match ls with
    | [] => Ok g
    | l :: r =>
      rbind (parse_edge_line l) (fun e =>
        parse_edges r (add_edge (fst (fst e)) (snd (fst e)) (snd e) g))
    end.

  (* parse_lines(lines, autocorrect, header_only) on a fresh MatchingInstance whose PrefLibInstance
     fields are m0 (parse_file / parse_str have set data_type, file_name before the call) *)
  Definition wmd_parse (ac ho : bool) (m0 : meta) (lines : list text) : result winst :=
    if teqb (data_type m0) (lit "wmd") then
      let m1 := if ac then set_reserved m0 (reserved_of alt_name_prefix lines) else m0 in
      rbind (wmd_header ac m1 0%N lines) (fun st =>
        let m := fst (fst st) in
        let m' := set_num_voters m (num_alternatives m) in
        if ho then Ok (mkW m' (snd (fst st)) [] [])
        else rbind (parse_edges (snd st) ([], []))
                   (fun g => Ok (mkW m' (num_stored (fst g)) (fst g) (snd g))))
    else Err TypeErr.

  (* edges(): every stored neighbour with its weight *)
  Definition all_edges (g : nmap) : list (Z * Z) :=
    flat_map (fun p => map (pair (fst p)) (snd p)) g.
  Definition wedges (i : winst) : list ((Z * Z) * W) :=
    flat_map (fun k => match assoc_get peqb k (w_weights i) with Some w => [(k, w)] | None => [] end)
             (all_edges (w_nodes i)).
End Wmd.

Arguments mkW {W}.
Arguments w_meta {W}.
Arguments w_num_edges {W}.
Arguments w_nodes {W}.
Arguments w_weights {W}.
Arguments add_edge {W}.
Arguments wmd_write_ok {W}.
Arguments wedges {W}.

(* ---- instantiation used by the extracted oracle: the weight is the raw float token ---- *)
Definition tok_show (t : text) : text := t.
(* float(token): surrounding whitespace is ignored; the empty token is a ValueError.  Whether the token
   is a float literal is decided on the Python side (the harness only sends repr(float) tokens). *)
Definition tok_read (t : text) : option text :=
  match strip t with
  | [] => None
  | s => if existsb (N.eqb 44) s then None else Some s
  end.

Definition twinst := winst text.
Definition wmd_write_tok : twinst -> text := wmd_write text tok_show.
Definition wmd_parse_tok : bool -> bool -> meta -> list text -> result twinst := wmd_parse text tok_read.
