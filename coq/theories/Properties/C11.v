(* Properties/C11.v — statements for property C11 (being completed; see Proofs/SP.v). *)
From Coq Require Import List NArith Bool.
From PrefVerif Require Import Lib.Val Lib.Contig Model.SP.
Import ListNotations.
Open Scope N_scope.

(* non-vacuity: a single-plateaued weak profile with its axis, and a profile refuted by the reference *)
Example C11_example_sp :
  spw_check_axis [1;2;3;4] [ [[2;3];[1];[4]] ; [[3];[4];[2];[1]] ; [[1;2;3;4]] ] [1;2;3;4] = true
  /\ spw_decide [1;2;3;4] [ [[2;3];[1];[4]] ; [[3];[4];[2];[1]] ; [[1;2;3;4]] ] = true.
Proof. split; vm_compute; reflexivity. Qed.

Example C11_example_not_sp :
  spw_decide [1;2;3] [ [[1;2];[3]] ; [[2;3];[1]] ; [[1;3];[2]] ] = false
  /\ sp_axis_weak [[1;2];[3]] [1;3;2] = false.
Proof. split; vm_compute; reflexivity. Qed.
