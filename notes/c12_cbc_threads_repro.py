"""C12: approx_SP_alternative_deletion_ILP occasionally reports a non-minimum value with status OPTIMAL when CBC
runs multi-threaded (model.threads = -1) under load. usage: python c12_cbc_threads_repro.py <nproc> <calls> [repo]"""
import gc, multiprocessing as mp, os, sys
ALTS = [2, 10, 12, 28, 32, 38, 43, 58]
ORDERS = [[[58, 2], [12], [10], [28, 43], [38], [32]], [[28], [2, 58], [10], [38], [43], [12], [32]],
          [[58, 10], [38, 32], [28], [2], [12], [43]], [[43], [38, 32, 12], [10], [58], [2, 28]],
          [[28], [43], [10, 38], [12], [32, 58], [2]], [[10], [2, 58, 28], [38, 12], [43], [32]]]


def work(n):
    sys.stdout = open(os.devnull, "w")
    from preflibtools.instances import OrdinalInstance
    from preflibtools.properties.subdomains.ordinal.singlepeaked.singlepeakedness import approx_SP_alternative_deletion_ILP
    out = []
    for _ in range(n):
        inst = OrdinalInstance()
        inst.append_order_list([tuple(tuple(c) for c in o) for o in ORDERS])
        inst.alternatives_name = {a: str(a) for a in ALTS}
        inst.num_alternatives = len(ALTS)
        inst.data_type = "toc"
        gc.collect(); gc.disable()
        try:
            r = approx_SP_alternative_deletion_ILP(inst)
        finally:
            gc.enable()
        out.append((r[0], str(r[1])))
    return out


if __name__ == "__main__":
    nproc, calls = int(sys.argv[1]), int(sys.argv[2])
    if len(sys.argv) > 3:
        sys.path.insert(0, sys.argv[3])
    with mp.Pool(nproc) as p:
        res = [x for l in p.map(work, [calls] * nproc) for x in l]
    from collections import Counter
    print(Counter(res))
