(* Proofs/EuclidLP.v — Fourier-Motzkin elimination is a sound and complete feasibility test for strict
   homogeneous linear systems over Q (fm_feasible_correct); the system of a profile on an axis is feasible iff
   the profile has an embedding whose alternatives appear in axis order (eucl_system_correct); hence
   eucl_decide is an exact decision procedure for 1-Euclidean profiles (eucl_decide_correct). *)
From Coq Require Import List Arith NArith ZArith QArith Qabs Qfield Bool Lia Lqa Permutation Sorted.
From PrefVerif Require Import Lib.Perms Lib.Contig Model.SP Model.SC Model.Euclid Model.EuclidLP
                              Proofs.SP Proofs.SC Proofs.Euclid.
Import ListNotations.
Open Scope Q_scope.

(* ============================================================================================== *)
(* 1. linear forms                                                                                 *)
(* ============================================================================================== *)
Lemma eval_nil_r c : eval c [] = 0.
Proof. destruct c; reflexivity. Qed.

Lemma eval_cons c e0 es : eval c (e0 :: es) == hdq c * e0 + eval (tlq c) es.
Proof. destruct c as [|c0 cs]; cbn; [ring|reflexivity]. Qed.

Lemma eval_scale k c es : eval (scale k c) es == k * eval c es.
Proof.
  revert es. induction c as [|x c IH]; intros [|e es]; cbn [scale map eval]; try ring.
  fold (scale k c). rewrite Qred_correct, IH. ring.
Qed.

Lemma eval_ladd c d es : eval (ladd c d) es == eval c es + eval d es.
Proof.
  revert d es. induction c as [|x c IH]; intros [|y d] [|e es]; cbn [ladd eval]; try ring.
  rewrite Qred_correct, IH. ring.
Qed.

Lemma eval_unit i k env : eval (unit i k) env == k * nth i env 0.
Proof.
  unfold unit. revert env. induction i as [|i IH]; intros [|e es]; cbn [repeat app eval nth]; try ring.
  rewrite IH. ring.
Qed.

Lemma Qeq_bool_true x y : Qeq_bool x y = true -> x == y.
Proof. apply Qeq_bool_iff. Qed.

Lemma lin_eqb_eval c d es : lin_eqb c d = true -> eval c es == eval d es.
Proof.
  revert d es. induction c as [|x c IH]; intros [|y d] es H; cbn in H; try discriminate; [reflexivity|].
  apply andb_true_iff in H. destruct H as (Hxy & H). apply Qeq_bool_true in Hxy.
  destruct es as [|e es]; cbn; [reflexivity|]. rewrite Hxy, (IH d es H). reflexivity.
Qed.

Lemma all_zero_eval c es : all_zero c = true -> eval c es == 0.
Proof.
  revert es. induction c as [|x c IH]; intros [|e es] H; cbn in *; try reflexivity.
  apply andb_true_iff in H. destruct H as (Hx & H). apply Qeq_bool_true in Hx. rewrite Hx, (IH es H). ring.
Qed.

(* ============================================================================================== *)
(* 2. satisfaction, simplification                                                                 *)
(* ============================================================================================== *)
Definition sat (env : list Q) (sys : list lin) : Prop := Forall (fun c => eval c env < 0) sys.

Lemma sat_app env s1 s2 : sat env (s1 ++ s2) <-> sat env s1 /\ sat env s2.
Proof. apply Forall_app. Qed.

Lemma Qabs_pos_nz x : ~ x == 0 -> 0 < Qabs x.
Proof.
  intros H. destruct (Q_dec x 0) as [[Hlt|Hgt]|Heq]; [| |contradiction].
  - rewrite Qabs_neg; lra.
  - rewrite Qabs_pos; lra.
Qed.

Lemma first_nz_pos c : 0 < first_nz c.
Proof.
  induction c as [|x c IH]; cbn; [reflexivity|].
  destruct (Qeq_bool x 0) eqn:E; [assumption|].
  apply Qeq_bool_neq in E. now apply Qabs_pos_nz.
Qed.

Lemma Qmult_pos_neg k a : 0 < k -> (k * a < 0 <-> a < 0).
Proof.
  intros Hk. split; intros H.
  - destruct (Qlt_le_dec a 0) as [Hl|Hl]; [assumption|]. exfalso.
    assert (0 <= k * a) by (apply Qmult_le_0_compat; lra). lra.
  - rewrite <- (Qmult_0_r k). apply Qmult_lt_l; assumption.
Qed.

Lemma sat_normalise env c : eval (normalise c) env < 0 <-> eval c env < 0.
Proof.
  unfold normalise. rewrite eval_scale. apply Qmult_pos_neg. apply Qinv_lt_0_compat. apply first_nz_pos.
Qed.

Lemma dedup_lin_sat env l : sat env (dedup_lin l) <-> sat env l.
Proof.
  unfold sat. induction l as [|c t IH]; cbn [dedup_lin]; [reflexivity|].
  destruct (existsb (lin_eqb c) t) eqn:E.
  - rewrite IH. split; intros H.
    + constructor; [|assumption]. apply existsb_exists in E. destruct E as (d & Hd & E).
      rewrite (lin_eqb_eval c d env E). rewrite Forall_forall in H. now apply H.
    + now inversion H.
  - split; intros H; inversion H; subst; constructor; try assumption; now apply IH.
Qed.

Lemma simplify_sat env sys : sat env (simplify sys) <-> sat env sys.
Proof.
  unfold simplify. rewrite dedup_lin_sat. unfold sat. rewrite Forall_map.
  split; apply Forall_impl; intros c; apply sat_normalise.
Qed.

(* ============================================================================================== *)
(* 3. one elimination step                                                                         *)
(* ============================================================================================== *)
Lemma is_zero_iff c : is_zero c = true <-> hdq c == 0.
Proof. apply Qeq_bool_iff. Qed.
Lemma is_pos_iff c : is_pos c = true <-> 0 < hdq c.
Proof. apply Qltb_lt. Qed.
Lemma is_neg_iff c : is_neg c = true <-> hdq c < 0.
Proof. apply Qltb_lt. Qed.

Lemma sign_cases c : is_zero c = true \/ is_pos c = true \/ is_neg c = true.
Proof.
  destruct (Q_dec (hdq c) 0) as [[H|H]|H].
  - right. right. now apply is_neg_iff.
  - right. left. now apply is_pos_iff.
  - left. now apply is_zero_iff.
Qed.

Lemma combine_sound p0 q0 P Q e0 :
  0 < p0 -> q0 < 0 -> p0 * e0 + P < 0 -> q0 * e0 + Q < 0 -> - q0 * P + p0 * Q < 0.
Proof. intros. nra. Qed.

Lemma fm_step_sound e0 es sys : sat (e0 :: es) sys -> sat es (fm_step sys).
Proof.
  unfold sat. intros H. rewrite Forall_forall in H. unfold fm_step. apply Forall_app. split.
  - rewrite Forall_map, Forall_forall. intros c Hc. apply filter_In in Hc. destruct Hc as (Hc & Hz).
    apply is_zero_iff in Hz. specialize (H c Hc). rewrite eval_cons, Hz in H. lra.
  - rewrite Forall_forall. intros x Hx. apply in_flat_map in Hx. destruct Hx as (p & Hp & Hx).
    apply in_map_iff in Hx. destruct Hx as (q & <- & Hq).
    apply filter_In in Hp, Hq. destruct Hp as (Hp & Hpp), Hq as (Hq & Hqn).
    apply is_pos_iff in Hpp. apply is_neg_iff in Hqn.
    pose proof (H p Hp) as H1. pose proof (H q Hq) as H2. rewrite eval_cons in H1, H2.
    unfold combine_pn. rewrite eval_ladd, !eval_scale.
    eapply combine_sound; eassumption.
Qed.

Lemma list_max_exists (l0 : Q) (L : list Q) : exists mx, In mx (l0 :: L) /\ forall l, In l (l0 :: L) -> l <= mx.
Proof.
  revert l0. induction L as [|x L IH]; intros l0.
  - exists l0. split; [now left|]. intros l [<-|[]]. lra.
  - destruct (IH x) as (mx & Hin & Hmx). destruct (Qlt_le_dec mx l0) as [Hlt|Hle].
    + exists l0. split; [now left|]. intros l [<-|Hl]; [lra|]. specialize (Hmx l Hl). lra.
    + exists mx. split; [now right|]. intros l [<-|Hl]; [assumption|now apply Hmx].
Qed.

Lemma list_min_exists (u0 : Q) (U : list Q) : exists mn, In mn (u0 :: U) /\ forall u, In u (u0 :: U) -> mn <= u.
Proof.
  revert u0. induction U as [|x U IH]; intros u0.
  - exists u0. split; [now left|]. intros u [<-|[]]. lra.
  - destruct (IH x) as (mn & Hin & Hmn). destruct (Qlt_le_dec u0 mn) as [Hlt|Hle].
    + exists u0. split; [now left|]. intros u [<-|Hu]; [lra|]. specialize (Hmn u Hu). lra.
    + exists mn. split; [now right|]. intros u [<-|Hu]; [assumption|now apply Hmn].
Qed.

Lemma between_lists (L U : list Q) :
  (forall l u, In l L -> In u U -> l < u) ->
  exists e, (forall l, In l L -> l < e) /\ (forall u, In u U -> e < u).
Proof.
  intros H. destruct L as [|l0 L], U as [|u0 U].
  - exists 0. split; intros ? [].
  - destruct (list_min_exists u0 U) as (mn & _ & Hmn). exists (mn - 1). split; [intros ? []|].
    intros u Hu. specialize (Hmn u Hu). lra.
  - destruct (list_max_exists l0 L) as (mx & _ & Hmx). exists (mx + 1). split; [|intros ? []].
    intros l Hl. specialize (Hmx l Hl). lra.
  - destruct (list_max_exists l0 L) as (mx & Hmxi & Hmx). destruct (list_min_exists u0 U) as (mn & Hmni & Hmn).
    pose proof (H mx mn Hmxi Hmni) as Hlt. exists ((mx + mn) * (1 # 2)). split.
    + intros l Hl. specialize (Hmx l Hl). lra.
    + intros u Hu. specialize (Hmn u Hu). lra.
Qed.

Lemma upper_ok p0 P e0 : 0 < p0 -> e0 < - P / p0 -> p0 * e0 + P < 0.
Proof.
  intros Hp H. apply (Qmult_lt_r _ _ p0 Hp) in H.
  assert (E : - P / p0 * p0 == - P) by (field; lra). rewrite E in H. lra.
Qed.

Lemma lower_ok q0 Q e0 : q0 < 0 -> Q / (- q0) < e0 -> q0 * e0 + Q < 0.
Proof.
  intros Hq H. assert (Hq' : 0 < - q0) by lra. apply (Qmult_lt_r _ _ (- q0) Hq') in H.
  assert (E : Q / - q0 * - q0 == Q) by (field; lra). rewrite E in H. lra.
Qed.

Lemma lu_ok p0 q0 P Q : 0 < p0 -> q0 < 0 -> - q0 * P + p0 * Q < 0 -> Q / (- q0) < - P / p0.
Proof.
  intros Hp Hq H. apply Qlt_shift_div_r; [lra|].
  assert (E : - P / p0 * - q0 == (- P * - q0) / p0) by (field; lra). rewrite E.
  apply Qlt_shift_div_l; [assumption|]. lra.
Qed.

Lemma fm_step_complete es sys : sat es (fm_step sys) -> exists e0, sat (e0 :: es) sys.
Proof.
  unfold fm_step. intros H. apply sat_app in H. destruct H as (Hz & Hc).
  unfold sat in Hz, Hc. rewrite Forall_map, Forall_forall in Hz. rewrite Forall_forall in Hc.
  set (lowers := map (fun q => eval (tlq q) es / (- hdq q)) (filter is_neg sys)).
  set (uppers := map (fun p => - eval (tlq p) es / hdq p) (filter is_pos sys)).
  destruct (between_lists lowers uppers) as (e0 & Hlo & Hup).
  { intros l u Hl Hu. apply in_map_iff in Hl, Hu. destruct Hl as (q & <- & Hq), Hu as (p & <- & Hp).
    assert (Hpq : eval (combine_pn p q) es < 0).
    { apply Hc. apply in_flat_map. exists p. split; [assumption|]. apply in_map. assumption. }
    apply filter_In in Hp, Hq. destruct Hp as (_ & Hpp), Hq as (_ & Hqn).
    apply is_pos_iff in Hpp. apply is_neg_iff in Hqn.
    unfold combine_pn in Hpq. rewrite eval_ladd, !eval_scale in Hpq. now apply lu_ok. }
  exists e0. unfold sat. rewrite Forall_forall. intros c Hin. rewrite eval_cons.
  destruct (sign_cases c) as [Hs|[Hs|Hs]].
  - assert (H0 : eval (tlq c) es < 0) by (apply Hz; apply filter_In; now split).
    apply is_zero_iff in Hs. rewrite Hs. lra.
  - assert (Hu : e0 < - eval (tlq c) es / hdq c).
    { apply Hup. unfold uppers. apply in_map_iff. exists c. split; [reflexivity|]. apply filter_In. now split. }
    apply is_pos_iff in Hs. now apply upper_ok.
  - assert (Hl : eval (tlq c) es / (- hdq c) < e0).
    { apply Hlo. unfold lowers. apply in_map_iff. exists c. split; [reflexivity|]. apply filter_In. now split. }
    apply is_neg_iff in Hs. now apply lower_ok.
Qed.

(* ============================================================================================== *)
(* 4. Fourier-Motzkin decides feasibility                                                          *)
(* ============================================================================================== *)
Theorem fm_feasible_correct n sys :
  fm_feasible n sys = true <-> exists env, length env = n /\ sat env sys.
Proof.
  revert sys. induction n as [|n IH]; intros sys; cbn [fm_feasible];
    destruct (existsb all_zero sys) eqn:Ez.
  - split; [discriminate|]. intros (env & _ & Hs). exfalso.
    apply existsb_exists in Ez. destruct Ez as (c & Hc & Hz). unfold sat in Hs. rewrite Forall_forall in Hs.
    specialize (Hs c Hc). rewrite (all_zero_eval c env Hz) in Hs. lra.
  - destruct sys as [|c t].
    + split; [|reflexivity]. intros _. exists []. split; [reflexivity|constructor].
    + split; [discriminate|]. intros (env & Hlen & Hs). destruct env; [|discriminate].
      inversion Hs as [|? ? Hc _]; subst. rewrite eval_nil_r in Hc. lra.
  - split; [discriminate|]. intros (env & _ & Hs). exfalso.
    apply existsb_exists in Ez. destruct Ez as (c & Hc & Hz). unfold sat in Hs. rewrite Forall_forall in Hs.
    specialize (Hs c Hc). rewrite (all_zero_eval c env Hz) in Hs. lra.
  - rewrite IH. split.
    + intros (es & Hlen & Hs). apply (proj1 (simplify_sat _ _)) in Hs. destruct (fm_step_complete es sys Hs) as (e0 & He).
      exists (e0 :: es). split; [cbn; now rewrite Hlen|assumption].
    + intros (env & Hlen & Hs). destruct env as [|e0 es]; [discriminate|]. exists es.
      split; [now injection Hlen|]. apply simplify_sat. eapply fm_step_sound; eassumption.
Qed.

(* ============================================================================================== *)
(* 5. the system of a profile on an axis                                                           *)
(* ============================================================================================== *)
Lemma SS_pairs {T} (R : T -> T -> Prop) l :
  StronglySorted R l <-> Forall (fun ab => R (fst ab) (snd ab)) (ordered_pairs l).
Proof.
  induction l as [|a t IH]; cbn [ordered_pairs].
  - split; constructor.
  - rewrite Forall_app, Forall_map. cbn [fst snd]. rewrite <- IH. split.
    + intros H. inversion H; subst. now split.
    + intros (H1 & H2). now constructor.
Qed.

Lemma ordered_pairs_In {T} (l : list T) a b : In (a, b) (ordered_pairs l) -> In a l /\ In b l.
Proof.
  induction l as [|x t IH]; cbn [ordered_pairs]; [intros []|]. intros H. apply in_app_or in H. destruct H as [H|H].
  - apply in_map_iff in H. destruct H as (y & E & Hy). injection E as <- <-. split; [now left|now right].
  - destruct (IH H). split; now right.
Qed.

Lemma ordered_pairs_neq {T} (l : list T) a b : NoDup l -> In (a, b) (ordered_pairs l) -> a <> b.
Proof.
  induction l as [|x t IH]; cbn [ordered_pairs]; [intros _ []|]. intros Hnd H.
  inversion Hnd as [|? ? Hnin Hnd']; subst. apply in_app_or in H. destruct H as [H|H].
  - apply in_map_iff in H. destruct H as (y & E & Hy). injection E as <- <-. intros ->. contradiction.
  - now apply IH.
Qed.

Lemma aidx_sorted (R : N -> N -> Prop) axis a b :
  StronglySorted R axis -> In a axis -> In b axis -> (aidx axis a < aidx axis b)%nat -> R a b.
Proof.
  induction 1 as [|x t Ht IH Hall]; intros Ha Hb Hlt; [destruct Ha|]. cbn [aidx] in Hlt.
  destruct (N.eqb x a) eqn:Exa.
  - apply N.eqb_eq in Exa. subst x. destruct (N.eqb a b) eqn:Eab; [lia|]. apply N.eqb_neq in Eab.
    destruct Hb as [->|Hb]; [congruence|]. rewrite Forall_forall in Hall. now apply Hall.
  - apply N.eqb_neq in Exa. destruct (N.eqb x b) eqn:Exb; [lia|]. apply N.eqb_neq in Exb.
    destruct Ha as [->|Ha]; [congruence|]. destruct Hb as [->|Hb]; [congruence|]. apply IH; [assumption|assumption|lia].
Qed.

Lemma aidx_inj axis a b : In a axis -> In b axis -> aidx axis a = aidx axis b -> a = b.
Proof.
  induction axis as [|x t IH]; intros Ha Hb E; [destruct Ha|]. cbn [aidx] in E.
  destruct (N.eqb x a) eqn:Exa, (N.eqb x b) eqn:Exb; try discriminate.
  - apply N.eqb_eq in Exa, Exb. congruence.
  - apply N.eqb_neq in Exa, Exb. destruct Ha as [->|Ha]; [congruence|]. destruct Hb as [->|Hb]; [congruence|].
    apply IH; [assumption|assumption|lia].
Qed.

Lemma aidx_nth_map (x : N -> Q) axis a : In a axis -> nth (aidx axis a) (map x axis) 0 = x a.
Proof.
  induction axis as [|y t IH]; intros Ha; [destruct Ha|]. cbn [aidx]. destruct (N.eqb y a) eqn:E.
  - apply N.eqb_eq in E. now subst.
  - apply N.eqb_neq in E. destruct Ha as [->|Ha]; [congruence|]. cbn. now apply IH.
Qed.

(* the placement read off an assignment of the variables *)
Definition xof (n : nat) (axis : list N) (env : list Q) (a : N) : Q := nth (n + aidx axis a) env 0.

Lemma eval_c_axis n axis env a b :
  eval (c_axis n axis (a, b)) env == xof n axis env a - xof n axis env b.
Proof. unfold c_axis, xof. cbn [fst snd]. rewrite eval_ladd, !eval_unit. ring. Qed.

Lemma axis_sys_sat n axis env :
  sat env (map (c_axis n axis) (ordered_pairs axis)) <->
  StronglySorted (fun a b => xof n axis env a < xof n axis env b) axis.
Proof.
  rewrite SS_pairs. unfold sat. rewrite Forall_map.
  split; apply Forall_impl; intros [a b]; rewrite eval_c_axis; cbn [fst snd]; lra.
Qed.

Lemma vote_cons_sat n axis env v r :
  StronglySorted (fun a b => xof n axis env a < xof n axis env b) axis -> NoDup r -> incl r axis ->
  (sat env (map (c_vote n axis v) (ordered_pairs r)) <-> vote_realised (xof n axis env) (nth v env 0) r).
Proof.
  intros Hax Hnd Hincl. rewrite vote_realised_SS, SS_pairs. unfold sat. rewrite Forall_map, !Forall_forall.
  assert (Hpt : forall ab, In ab (ordered_pairs r) ->
            (eval (c_vote n axis v ab) env < 0 <-> closer (xof n axis env) (nth v env 0) (fst ab) (snd ab))).
  { intros [a b] Hab. cbn [fst snd]. destruct (ordered_pairs_In _ _ _ Hab) as (Ha & Hb).
    pose proof (ordered_pairs_neq _ _ _ Hnd Hab) as Hne. apply Hincl in Ha, Hb.
    unfold c_vote, closer. cbn [fst snd]. destruct (aidx axis a <? aidx axis b)%nat eqn:E.
    - apply Nat.ltb_lt in E. pose proof (aidx_sorted _ _ _ _ Hax Ha Hb E) as Hlt. cbn beta in Hlt.
      rewrite (closer_left_iff _ _ _ Hlt). rewrite !eval_ladd, !eval_unit. fold (xof n axis env a) (xof n axis env b).
      split; intros; lra.
    - apply Nat.ltb_ge in E. assert (E' : (aidx axis b < aidx axis a)%nat).
      { destruct (Nat.eq_dec (aidx axis a) (aidx axis b)) as [Eq|Nq]; [|lia].
        exfalso. apply Hne. now apply (aidx_inj axis). }
      pose proof (aidx_sorted _ _ _ _ Hax Hb Ha E') as Hlt. cbn beta in Hlt.
      rewrite (closer_right_iff _ _ _ Hlt). rewrite !eval_ladd, !eval_unit. fold (xof n axis env a) (xof n axis env b).
      split; intros; lra. }
  split; intros H ab Hab; apply Hpt; auto.
Qed.

Lemma Forall2_cons_iff {T U} (P : T -> U -> Prop) a b l1 l2 :
  Forall2 P (a :: l1) (b :: l2) <-> P a b /\ Forall2 P l1 l2.
Proof. split; [intros H; inversion H; now subst|intros (H1 & H2); now constructor]. Qed.

Lemma vote_sys_sat n axis env :
  StronglySorted (fun a b => xof n axis env a < xof n axis env b) axis ->
  forall (profile : list (list N)) (v0 : nat) (vs : list Q),
    length vs = length profile -> (forall k, (k < length vs)%nat -> nth (v0 + k) env 0 = nth k vs 0) ->
    Forall (fun r => NoDup r /\ incl r axis) profile ->
    (sat env (vote_sys n axis v0 profile) <-> Forall2 (vote_realised (xof n axis env)) vs profile).
Proof.
  intros Hax. induction profile as [|r t IH]; intros v0 vs Hlen Hnth Hwf.
  - destruct vs; [|discriminate]. cbn. split; constructor.
  - destruct vs as [|p vs']; [discriminate|]. cbn [vote_sys]. rewrite sat_app, Forall2_cons_iff.
    inversion Hwf as [|? ? (Hnd & Hincl) Hwf']; subst.
    rewrite (vote_cons_sat n axis env v0 r Hax Hnd Hincl).
    assert (E0 : nth v0 env 0 = p).
    { specialize (Hnth 0%nat). rewrite Nat.add_0_r in Hnth. apply Hnth. cbn. lia. }
    rewrite E0. rewrite (IH (S v0) vs'); [reflexivity| | |assumption].
    + cbn in Hlen. lia.
    + intros k Hk. specialize (Hnth (S k)). rewrite Nat.add_succ_r in Hnth. cbn [plus]. apply Hnth. cbn. lia.
Qed.

Lemma nth_firstn_lt {T} (l : list T) n k d : (k < n)%nat -> nth k (firstn n l) d = nth k l d.
Proof.
  revert n k. induction l as [|x t IH]; intros [|n] [|k] H; cbn; try reflexivity; try lia. apply IH. lia.
Qed.

Lemma vote_realised_ext x x' v r : (forall a, In a r -> x a = x' a) -> vote_realised x v r -> vote_realised x' v r.
Proof.
  intros Hext H i j a b Hij Hi Hj. unfold closer.
  rewrite <- (Hext a), <- (Hext b); [now apply (H i j)| |]; eapply nth_error_In; eassumption.
Qed.

Lemma ranked_wf (axis : list N) (profile : list (list N)) : NoDup axis -> Forall (fun r => Permutation axis r) profile ->
  Forall (fun r => NoDup r /\ incl r axis) profile.
Proof.
  intros Hnd. apply Forall_impl. intros r HP. split.
  - eapply Permutation_NoDup; eassumption.
  - intros a Ha. eapply Permutation_in; [apply Permutation_sym; exact HP|assumption].
Qed.

(* the system on an axis is feasible iff the profile has an embedding with the alternatives in axis order *)
Theorem eucl_system_correct axis profile :
  NoDup axis -> Forall (fun r => Permutation axis r) profile ->
  (eucl_axis_feasible axis profile = true <->
   exists x vpos, StronglySorted (fun a b => x a < x b) axis /\ realises x vpos profile).
Proof.
  intros Hnd Hrk. pose proof (ranked_wf axis profile Hnd Hrk) as Hwf.
  unfold eucl_axis_feasible. rewrite fm_feasible_correct. unfold eucl_system, realises.
  set (n := length profile). split.
  - intros (env & Hlen & Hs). apply sat_app in Hs. destruct Hs as (Hax & Hv). apply axis_sys_sat in Hax.
    exists (xof n axis env), (firstn n env). split; [assumption|].
    apply (vote_sys_sat n axis env Hax profile 0%nat (firstn n env)); try assumption.
    + rewrite firstn_length. fold n. lia.
    + intros k Hk. rewrite firstn_length in Hk. cbn [plus]. symmetry. apply nth_firstn_lt. lia.
  - intros (x & vpos & Hax & Hre). pose proof (Forall2_length _ _ _ Hre) as Hlen. fold n in Hlen.
    set (env := vpos ++ map x axis). exists env.
    assert (Hx : forall a, In a axis -> xof n axis env a = x a).
    { intros a Ha. unfold xof, env. rewrite <- Hlen, app_nth2_plus. now apply aidx_nth_map. }
    split; [unfold env; rewrite app_length, map_length; lia|].
    assert (Hax' : StronglySorted (fun a b => xof n axis env a < xof n axis env b) axis).
    { eapply SS_weaken; [|exact Hax]. cbn beta. intros a b Ha Hb. now rewrite (Hx a Ha), (Hx b Hb). }
    apply sat_app. split; [now apply axis_sys_sat|].
    apply (vote_sys_sat n axis env Hax' profile 0%nat vpos); try assumption.
    + intros k Hk. cbn [plus]. unfold env. now rewrite app_nth1.
    + eapply Forall2_impl; [|exact Hre]. cbn beta. intros v r _ Hr. apply vote_realised_ext.
      intros a Ha. symmetry. apply Hx. rewrite Forall_forall in Hwf. now apply (Hwf r Hr).
Qed.

(* ============================================================================================== *)
(* 6. the reference decider is exact                                                               *)
(* ============================================================================================== *)
Theorem eucl_decide_correct alts profile :
  NoDup alts -> ranked_on alts profile -> (eucl_decide alts profile = true <-> Euclidean profile).
Proof.
  intros Hnd Hrk. destruct profile as [|r0 t].
  - split; [|reflexivity]. intros _. exists (fun _ => 0), []. constructor.
  - unfold eucl_decide. rewrite existsb_exists. split.
    + intros (axis & Hin & H). apply andb_true_iff in H. destruct H as (_ & Hf).
      apply perms_iff in Hin.
      assert (Hnda : NoDup axis) by (eapply Permutation_NoDup; eassumption).
      assert (Hrka : Forall (fun r => Permutation axis r) (r0 :: t)).
      { eapply Forall_impl; [|exact Hrk]. cbn beta. intros r Hr.
        eapply Permutation_trans; [apply Permutation_sym; exact Hin|exact Hr]. }
      apply (eucl_system_correct axis _ Hnda Hrka) in Hf. destruct Hf as (x & vpos & _ & Hre).
      now exists x, vpos.
    + intros (x & vpos & Hre).
      destruct (eucl_implies_sp alts (r0 :: t) x vpos Hnd Hrk) as (_ & axis & HP & Hss & Hsp);
        [discriminate|assumption|].
      assert (Hnda : NoDup axis) by (eapply Permutation_NoDup; eassumption).
      assert (Hrka : Forall (fun r => Permutation axis r) (r0 :: t)).
      { eapply Forall_impl; [|exact Hrk]. cbn beta. intros r Hr.
        eapply Permutation_trans; [apply Permutation_sym; exact HP|exact Hr]. }
      exists axis. split; [now apply perms_iff|]. apply andb_true_iff. split.
      * apply sp_axis_profile_correct; [assumption| |].
        -- intros o Ho. apply in_map_iff in Ho. destruct Ho as (r & <- & Hr). intros a.
           rewrite concat_strictify. rewrite Forall_forall in Hrka. specialize (Hrka r Hr). split; intros Ha.
           ++ eapply Permutation_in; eassumption.
           ++ eapply Permutation_in; [apply Permutation_sym; exact Hrka|assumption].
        -- now apply SPw_axis_strict.
      * apply (eucl_system_correct axis _ Hnda Hrka). now exists x, vpos.
Qed.

(* in particular False is the only correct answer exactly when the decider says false *)
Corollary eucl_decide_false alts profile :
  NoDup alts -> ranked_on alts profile -> (eucl_decide alts profile = false <-> ~ Euclidean profile).
Proof.
  intros Hnd Hrk. rewrite <- (eucl_decide_correct alts profile Hnd Hrk).
  destruct (eucl_decide alts profile); split; intros H; try reflexivity; try discriminate; try congruence.
Qed.
