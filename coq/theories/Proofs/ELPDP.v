(* Proofs/ELPDP.v — soundness of the mirrored Erdelyi-Lackner-Pfandler dynamic programme (Model/ELPDP.v).

   MAIN RESULTS (every size, every choice of the two order parameters pair_first / ext_order)
     elp_sound            the pair (axis, removed) returned by k_alternative_deletion is accepted by the verified
                          certificate checker: cert_alt alts profile |removed| axis removed = true
     elp_bound            hence  min_alt_del alts profile <= |removed|
     longest_axis_sound   the general form for a subset of the alternatives (used by C18)
     approx_valid         k_alt_partition_approx terminates (no OutOfFuel) when there is at least one vote and its
                          output is accepted by Partition.partition_check
   Proof: every incomplete axis ever stored (tables S[i], longest, locked_axis) satisfies an invariant
   (duplicate-free, inside the alternatives, single-peaked for every vote, and every placed alternative is ranked
   below all alternatives of the last placed set in some vote); `place` preserves it because its boundary checks
   (check 1, check_case_4, the c/d flags) are exactly what single-peakedness of the extended axis needs
   (arm lemmas armG / armH, sp_insert1, sp_insert2), and last_check keeps the placed alternatives distinct. *)
From Coq Require Import List Arith NArith Bool Lia Permutation.
From PrefVerif Require Import Lib.Val Lib.Contig Lib.Subsets Model.SP Model.Deletion Model.ELPDP
                              Proofs.SP Proofs.Deletion.
Import ListNotations.

(* ---------------------------------------------------------------------------------------------- *)
(* 1. ranks                                                                                        *)

Lemma rk_lt v a : In a v -> rk v a < length v.
Proof.
  induction v as [|x r IH]; intros H; [contradiction|]. simpl. destruct (N.eqb a x) eqn:E; [lia|].
  apply N.eqb_neq in E. destruct H as [->|H]; [congruence|]. apply IH in H. lia.
Qed.

Lemma rk_inj v a b : In a v -> In b v -> rk v a = rk v b -> a = b.
Proof.
  induction v as [|x r IH]; intros Ha Hb E; [contradiction|]. simpl in E.
  destruct (N.eqb a x) eqn:Ea, (N.eqb b x) eqn:Eb; try discriminate.
  - apply N.eqb_eq in Ea, Eb. congruence.
  - apply N.eqb_neq in Ea, Eb. destruct Ha as [->|Ha]; [congruence|]. destruct Hb as [->|Hb]; [congruence|].
    apply IH; auto.
Qed.

Lemma rk_neq v a b : In a v -> In b v -> a <> b -> rk v a <> rk v b.
Proof. intros Ha Hb Hab E. apply Hab. eapply rk_inj; eauto. Qed.

(* ---------------------------------------------------------------------------------------------- *)
(* 2. "a before b" and sub3 over cons / append / rev                                               *)

Definition bef {T} (a b : T) (l : list T) : Prop := exists l1 l2 l3, l = l1 ++ a :: l2 ++ b :: l3.

Lemma bef_in {T} (a b : T) l : bef a b l -> In a l /\ In b l.
Proof.
  intros (l1 & l2 & l3 & ->). split.
  - apply in_or_app. right. now left.
  - apply in_or_app. right. right. apply in_or_app. right. now left.
Qed.

Lemma sub3_in {T} (a b c : T) l : sub3 a b c l -> In a l /\ In b l /\ In c l.
Proof.
  intros (l1 & l2 & l3 & l4 & ->). repeat split.
  - apply in_or_app. right. now left.
  - apply in_or_app. right. right. apply in_or_app. right. now left.
  - apply in_or_app. right. right. apply in_or_app. right. right. apply in_or_app. right. now left.
Qed.

Lemma bef_cons {T} (x a b : T) l : bef a b (x :: l) <-> (a = x /\ In b l) \/ bef a b l.
Proof.
  split.
  - intros (l1 & l2 & l3 & E). destruct l1 as [|y l1]; simpl in E.
    + injection E as -> ->. left. split; [reflexivity|]. apply in_or_app. right. now left.
    + injection E as -> ->. right. now exists l1, l2, l3.
  - intros [[-> Hb]|(l1 & l2 & l3 & ->)].
    + apply in_split in Hb. destruct Hb as (l2 & l3 & ->). now exists [], l2, l3.
    + now exists (x :: l1), l2, l3.
Qed.

Lemma sub3_cons_iff {T} (x a b c : T) l : sub3 a b c (x :: l) <-> (a = x /\ bef b c l) \/ sub3 a b c l.
Proof.
  split.
  - intros (l1 & l2 & l3 & l4 & E). destruct l1 as [|y l1]; simpl in E.
    + injection E as -> ->. left. split; [reflexivity|]. now exists l2, l3, l4.
    + injection E as -> ->. right. now exists l1, l2, l3, l4.
  - intros [[-> (l2 & l3 & l4 & ->)]|(l1 & l2 & l3 & l4 & ->)].
    + now exists [], l2, l3, l4.
    + now exists (x :: l1), l2, l3, l4.
Qed.

Lemma bef_app {T} (a b : T) X Y : bef a b (X ++ Y) <-> bef a b X \/ (In a X /\ In b Y) \/ bef a b Y.
Proof.
  induction X as [|x X IH]; simpl.
  - split; [auto|]. intros [H|[[[] _]|H]]; [|exact H]. destruct H as (l1 & ? & ? & E). destruct l1; discriminate.
  - rewrite !bef_cons, IH, in_app_iff. split.
    + intros [[-> [H|H]]|[H|[[H1 H2]|H]]]; auto 6.
    + intros [[[-> H]|H]|[[[->|H1] H2]|H]]; auto 6.
Qed.

Lemma sub3_app {T} (a b c : T) X Y :
  sub3 a b c (X ++ Y) <-> sub3 a b c X \/ (bef a b X /\ In c Y) \/ (In a X /\ bef b c Y) \/ sub3 a b c Y.
Proof.
  induction X as [|x X IH]; simpl.
  - split; [auto|]. intros [H|[[H _]|[[[] _]|H]]]; [| |exact H].
    + destruct H as (l1 & ? & ? & ? & E). destruct l1; discriminate.
    + destruct H as (l1 & ? & ? & E). destruct l1; discriminate.
  - rewrite !sub3_cons_iff, IH, bef_app, bef_cons. split.
    + intros [[-> [H|[[H1 H2]|H]]]|[H|[[H1 H2]|[[H1 H2]|H]]]]; auto 8.
    + intros [[[-> H]|H]|[[[[-> H1]|H1] H2]|[[[->|H1] H2]|H]]]; auto 8.
Qed.

Lemma bef_rev {T} (a b : T) l : bef a b (rev l) <-> bef b a l.
Proof.
  assert (H : forall (a b : T) l, bef a b l -> bef b a (rev l)).
  { intros a0 b0 l0 (l1 & l2 & l3 & ->). exists (rev l3), (rev l2), (rev l1).
    rewrite rev_app_distr. simpl. rewrite rev_app_distr. simpl. now rewrite <- !app_assoc. }
  split; intros Hb; [|now apply H]. apply H in Hb. now rewrite rev_involutive in Hb.
Qed.

Lemma sub3_rev {T} (a b c : T) l : sub3 a b c (rev l) <-> sub3 c b a l.
Proof.
  assert (H : forall (a b c : T) l, sub3 a b c l -> sub3 c b a (rev l)).
  { intros a0 b0 c0 l0 (l1 & l2 & l3 & l4 & ->). exists (rev l4), (rev l3), (rev l2), (rev l1).
    rewrite rev_app_distr. simpl. rewrite rev_app_distr. simpl. rewrite rev_app_distr. simpl.
    now rewrite <- !app_assoc. }
  split; intros Hb; [|now apply H]. apply H in Hb. now rewrite rev_involutive in Hb.
Qed.

(* ---------------------------------------------------------------------------------------------- *)
(* 3. single-peakedness of one vote on a list of alternatives: no alternative ranked below both an  *)
(*    alternative to its left and one to its right                                                 *)

Definition spv (v : list N) (O : list N) : Prop :=
  forall a b c, sub3 a b c O -> ~ (rk v a < rk v b /\ rk v c < rk v b).

Lemma spv_valley v O : spv v O <-> valley (map (rk v) O).
Proof.
  unfold spv, valley, peak3. split.
  - intros H (x & y & z & Hs & Hxy & Hzy). apply sub3_map_inv in Hs.
    destruct Hs as (a & b & c & Hs & <- & <- & <-). now apply (H a b c Hs).
  - intros H a b c Hs [H1 H2]. apply H. exists (rk v a), (rk v b), (rk v c).
    split; [now apply sub3_map|lia].
Qed.

Lemma spv_rev v O : spv v (rev O) <-> spv v O.
Proof.
  unfold spv. split; intros H a b c Hs [H1 H2].
  - apply (H c b a); [now apply sub3_rev|lia].
  - apply (proj1 (sub3_rev a b c O)) in Hs. apply (H c b a Hs). lia.
Qed.

Lemma spv_app_l v X Y : spv v (X ++ Y) -> spv v X.
Proof. intros H a b c Hs. apply H. apply sub3_app. now left. Qed.
Lemma spv_app_r v X Y : spv v (X ++ Y) -> spv v Y.
Proof. intros H a b c Hs. apply H. apply sub3_app. auto. Qed.

(* ---------------------------------------------------------------------------------------------- *)
(* 4. arm lemmas.  An arm M lists one side of the gap, inner end first: p1 = hd M, p0 = second.      *)

(* check_case_4 on this arm *)
Definition arm_b (v M : list N) (x : N) : Prop :=
  exists p1 p0, nth_error M 0 = Some p1 /\ nth_error M 1 = Some p0 /\ rk v p0 < rk v p1 /\ rk v x < rk v p1.

Lemma arm_second_better v M p1 e rest : incl M v -> NoDup M -> spv v M -> M = p1 :: e :: rest ->
  forall a, In a (e :: rest) -> rk v a < rk v p1 -> rk v e < rk v p1.
Proof.
  intros HM HMnd Hsp EM a Ha Hlt. destruct Ha as [<-|Ha]; [assumption|].
  assert (Hne : rk v e <> rk v p1).
  { apply rk_neq; try (apply HM; rewrite EM; simpl; auto). intros ->. rewrite EM in HMnd.
    inversion HMnd as [|? ? Hn _]. apply Hn. now left. }
  destruct (lt_dec (rk v e) (rk v p1)) as [|Hge]; [assumption|exfalso].
  apply (Hsp p1 e a).
  - rewrite EM. apply in_split in Ha. destruct Ha as (l3 & l4 & ->). now exists [], [], l3, l4.
  - lia.
Qed.

(* x ranked above a deeper alternative b that is itself above something further out: then check_case_4 fires *)
Lemma armH v M x : incl M v -> NoDup M -> spv v M ->
  ~ arm_b v M x -> forall b c, bef b c M -> ~ (rk v x < rk v b /\ rk v c < rk v b).
Proof.
  intros HM HMnd Hsp Hnb b c Hbc [Hxb Hcb]. apply Hnb. destruct Hbc as (l1 & l2 & l3 & EM).
  destruct l1 as [|p1 l1]; simpl in EM.
  - (* b is the inner end *)
    destruct l2 as [|e l2]; simpl in EM.
    + exists b, c. rewrite EM. auto.
    + exists b, e. rewrite EM. repeat split; auto.
      apply (arm_second_better v M b e (l2 ++ c :: l3) HM HMnd Hsp EM c); [|assumption].
      right. apply in_or_app. right. now left.
  - (* b is deeper: it is ranked above the inner end *)
    assert (Hbp : rk v b < rk v p1).
    { assert (Hne : rk v b <> rk v p1).
      { apply rk_neq; try (apply HM; rewrite EM; simpl; auto).
        - right. apply in_or_app. right. now left.
        - intros ->. rewrite EM in HMnd. inversion HMnd as [|? ? Hn _]. apply Hn. apply in_or_app. right. now left. }
      destruct (lt_dec (rk v b) (rk v p1)) as [|Hge]; [assumption|exfalso].
      apply (Hsp p1 b c); [rewrite EM; now exists [], l1, l2, l3|lia]. }
    destruct l1 as [|e l1]; simpl in EM.
    + exists p1, b. rewrite EM. repeat split; auto. lia.
    + exists p1, e. rewrite EM. repeat split; auto; [|lia].
      apply (arm_second_better v M p1 e (l1 ++ b :: l2 ++ c :: l3) HM HMnd Hsp EM b); [|assumption].
      right. apply in_or_app. right. now left.
Qed.

(* x ranked below some alternative of the arm: then it is ranked below the inner end *)
Lemma armG v M x : incl M v -> NoDup M -> In x v -> ~ In x M -> spv v M ->
  ~ arm_b v M x -> forall a, In a M -> rk v a < rk v x -> forall p1, nth_error M 0 = Some p1 -> rk v p1 < rk v x.
Proof.
  intros HM HMnd Hx HxM Hsp Hnb a Ha Hax p1 Hp1.
  destruct M as [|q rest]; [discriminate|]. simpl in Hp1. injection Hp1 as ->.
  destruct Ha as [<-|Ha]; [assumption|].
  assert (Hne : rk v p1 <> rk v x).
  { apply rk_neq; auto; [apply HM; now left|]. intros ->. apply HxM. now left. }
  destruct (lt_dec (rk v p1) (rk v x)) as [|Hge]; [assumption|exfalso].
  apply Hnb. destruct rest as [|e rest]; [contradiction|]. exists p1, e. repeat split; auto; [|lia].
  apply (arm_second_better v (p1 :: e :: rest) p1 e rest HM HMnd Hsp eq_refl a Ha). lia.
Qed.

(* ---------------------------------------------------------------------------------------------- *)
(* 5. inserting at the gap preserves single-peakedness                                             *)

Definition check1 (v M1 M2 : list N) (x : N) : Prop :=
  exists p1 p2, nth_error M1 0 = Some p1 /\ nth_error M2 0 = Some p2 /\ rk v p1 < rk v x /\ rk v p2 < rk v x.

Lemma sp_insert1 v M1 M2 x :
  incl (rev M1 ++ M2) v -> In x v -> NoDup (x :: rev M1 ++ M2) ->
  spv v (rev M1 ++ M2) -> ~ check1 v M1 M2 x -> ~ arm_b v M1 x -> ~ arm_b v M2 x ->
  spv v (rev M1 ++ x :: M2).
Proof.
  intros Hincl Hx Hnd Hsp Hc1 Hb1 Hb2.
  assert (HM1 : incl M1 v) by (intros a Ha; apply Hincl; apply in_or_app; left; now apply in_rev in Ha).
  assert (HM2 : incl M2 v) by (intros a Ha; apply Hincl; apply in_or_app; now right).
  inversion Hnd as [|? ? HxO HO]; subst.
  assert (HxM1 : ~ In x M1) by (intros H; apply HxO; apply in_or_app; left; now apply in_rev in H).
  assert (HxM2 : ~ In x M2) by (intros H; apply HxO; apply in_or_app; now right).
  assert (Hnd1 : NoDup M1) by (apply NoDup_app_l in HO; now apply NoDup_rev in HO; rewrite rev_involutive in HO).
  assert (Hnd2 : NoDup M2) by (now apply NoDup_app_r in HO).
  assert (Hsp1 : spv v M1) by (apply spv_rev; eapply spv_app_l; eauto).
  assert (Hsp2 : spv v M2) by (eapply spv_app_r; eauto).
  intros a b c Hs [Hab Hcb]. apply sub3_app in Hs. destruct Hs as [Hs|[[Hs Hc]|[[Ha Hs]|Hs]]].
  - apply (Hsp a b c); [apply sub3_app; now left|lia].
  - destruct Hc as [<-|Hc].
    + apply (proj1 (bef_rev a b M1)) in Hs. apply (armH v M1 x HM1 Hnd1 Hsp1 Hb1 b a Hs). lia.
    + apply (Hsp a b c); [apply sub3_app; auto|lia].
  - apply bef_cons in Hs. destruct Hs as [[-> Hc]|Hs].
    + apply Hc1. apply in_rev in Ha.
      destruct M1 as [|p1 M1'] eqn:E1; [contradiction|]. destruct M2 as [|p2 M2'] eqn:E2; [contradiction|].
      exists p1, p2. repeat split; auto.
      * rewrite <- E1 in *. apply (armG v M1 x HM1 Hnd1 Hx HxM1 Hsp1 Hb1 a Ha Hab). now rewrite E1.
      * rewrite <- E2 in *. apply (armG v M2 x HM2 Hnd2 Hx HxM2 Hsp2 Hb2 c Hc Hcb). now rewrite E2.
    + apply (Hsp a b c); [apply sub3_app; auto|lia].
  - apply sub3_cons_iff in Hs. destruct Hs as [[-> Hs]|Hs].
    + apply (armH v M2 x HM2 Hnd2 Hsp2 Hb2 b c Hs). lia.
    + apply (Hsp a b c); [apply sub3_app; auto 6|lia].
Qed.

(* two alternatives u (left), w (right) at once: insert w, then u next to it *)
Lemma sp_insert2 v M1 M2 u w :
  incl (rev M1 ++ M2) v -> In u v -> In w v -> NoDup (u :: w :: rev M1 ++ M2) ->
  spv v (rev M1 ++ M2) ->
  ~ check1 v M1 M2 w -> ~ arm_b v M1 w -> ~ arm_b v M2 w -> ~ arm_b v M1 u ->
  (* d-flag of u: u below the left inner end and below w ; c-flag of w: w below the right inner end and below u *)
  ~ (exists p1, nth_error M1 0 = Some p1 /\ rk v p1 < rk v u /\ rk v w < rk v u) ->
  ~ (exists p2, nth_error M2 0 = Some p2 /\ rk v p2 < rk v w /\ rk v u < rk v w) ->
  spv v (rev M1 ++ u :: w :: M2).
Proof.
  intros Hincl Hu Hw Hnd Hsp Hc1 Hb1w Hb2w Hb1u Hdu Hcw.
  inversion Hnd as [|? ? Hu' Hnd']; subst.
  assert (Hspw : spv v (rev M1 ++ w :: M2)) by (now apply sp_insert1).
  apply (sp_insert1 v M1 (w :: M2) u).
  - intros a Ha. apply in_app_or in Ha. destruct Ha as [Ha|[<-|Ha]]; [apply Hincl; apply in_or_app; now left|assumption|].
    apply Hincl. apply in_or_app. now right.
  - assumption.
  - constructor.
    + intros H. apply Hu'. apply in_app_or in H. destruct H as [H|[<-|H]]; [right; apply in_or_app; now left|now left|].
      right. apply in_or_app. now right.
    + eapply Permutation_NoDup; [apply Permutation_middle|exact Hnd'].
  - exact Hspw.
  - intros (p1 & p2 & E1 & E2 & H1 & H2). simpl in E2. injection E2 as <-. apply Hdu. exists p1. auto.
  - exact Hb1u.
  - intros (p1 & p0 & E1 & E0 & H1 & H2). simpl in E1, E0. injection E1 as <-. apply Hcw. exists p0. auto.
Qed.
