(* Proofs/PartitionComplete.v — COMPLETENESS / MINIMALITY of the mirror of k_alternative_partition_brut_force
   (Model/PartitionAlgo.v), using place_complete of Proofs/ELPComplete.v and the level sets of Proofs/ELPLevels.v.

   MAIN RESULTS (every size, every order parameter set_order that permutes its argument, at least one vote)
     bf_complete_min   a valid partition with at most k axes exists -> bf_algo returns Some partition with at most as
                       many axes
     bf_algo_ok        brute_force_ok alts votes k (bf_algo set_order alts votes k) = true       (second sentence of C18)
   Proof.  Fix a target partition Tgt (a minimum one).  A list of incomplete axes is COMPATIBLE with Tgt when its axes
   can be paired with distinct blocks of Tgt such that each axis lies inside its block and is `completable` to a
   single-peaked arrangement of the block.  At a level, every still unplaced alternative h of the level is ranked
   last among the unplaced rest of its block by some vote (the earlier levels are placed), so by place_complete the
   piece "all alternatives ranked last in that rest" (h alone, or h with a partner that is unplaced, hence a new or a
   later alternative) is accepted on the block's axis (or on a new axis) and keeps compatibility (piece_step,
   level_step).  These pieces form one of the enumerated extensions (Canon / spc_complete) and the resulting axes
   list is among the results of extend (ExtR / extend_complete).  limit() never excludes them while the best
   partition found is longer than Tgt, and shortest never gets longer (dfs_complete). *)
From Coq Require Import List Arith NArith Bool Lia Permutation.
From PrefVerif Require Import Lib.Val Lib.Contig Lib.SetPartitions Model.SP Model.ELPDP Model.Partition
                              Model.PartitionAlgo Proofs.SP Proofs.ELPDP Proofs.Partition Proofs.ELPComplete
                              Proofs.ELPLevels Proofs.PartitionAlgo.
Import ListNotations.

Definition unpl (A : paxis) (B : list N) : list N := filter (fun u => negb (memN u (pa_elems A))) B.

Lemma unpl_In A B a : In a (unpl A B) <-> In a B /\ ~ In a (pa_elems A).
Proof. unfold unpl. rewrite filter_In, negb_true_iff, memN_false. reflexivity. Qed.

Lemma unpl_empty B : unpl pa_empty B = B.
Proof. unfold unpl. apply filter_all_true. intros x _. reflexivity. Qed.

Lemma mkset_In a x1 x2 : In a (mkset x1 x2) <-> a = x1 \/ a = x2.
Proof.
  unfold mkset. destruct (N.eqb x1 x2) eqn:E; [apply N.eqb_eq in E; subst; simpl; intuition|].
  destruct (N.ltb x1 x2); simpl; intuition.
Qed.

Lemma place_mkset A x1 x2 h y votes : x1 <> x2 -> (h = x1 /\ y = x2) \/ (h = x2 /\ y = x1) ->
  place (fun a _ => N.eqb a h) A (mkset x1 x2) votes = place_t A [h; y] votes.
Proof.
  intros Hne Hhy. unfold mkset, place_t. apply N.eqb_neq in Hne. rewrite Hne. apply N.eqb_neq in Hne.
  destruct Hhy as [[-> ->]|[-> ->]]; destruct (N.ltb _ _); cbn [place]; rewrite ?N.eqb_refl; try reflexivity.
  - assert (E : N.eqb x2 x1 = false) by (apply N.eqb_neq; congruence). now rewrite E.
  - assert (E : N.eqb x1 x2 = false) by (apply N.eqb_neq; congruence). now rewrite E.
Qed.

Section Complete.
Variables (alts : list N) (votes : list (list N)).
Hypothesis Halts : NoDup alts.
Hypothesis Hvne : votes <> [].
Hypothesis Hvotes : forall v, In v votes -> NoDup v /\ incl alts v.

Lemma completable_perm A U U' : Permutation U U' -> completable votes A U -> completable votes A U'.
Proof.
  intros Hp (mu & Hmu & H). exists mu. split; [|assumption]. eapply perm_trans; [apply Permutation_sym; exact Hp|exact Hmu].
Qed.

(* one piece on the axis of its block *)
Lemma piece_step A B h :
  NoDup B -> incl B alts -> incl (pa_elems A) B -> NoDup (pa_elems A) ->
  completable votes A (unpl A B) -> isbottom votes (unpl A B) h ->
  exists p A', (p = [h] \/ exists y, p = [h; y] /\ y <> h /\ In y (unpl A B)) /\
    fst (place_t A p votes) = A' /\ pa_eqb A' A = false /\
    incl (pa_elems A') B /\ NoDup (pa_elems A') /\ completable votes A' (unpl A' B) /\
    (forall a, In a (pa_elems A') <-> In a (pa_elems A) \/ In a p) /\
    (forall h', isbottom votes (unpl A B) h' -> In h' p).
Proof.
  intros HB HBa HAB HA Hcomp Hbot. set (U := unpl A B) in *.
  assert (HhU : In h U) by (destruct Hbot as (v & _ & H & _); exact H).
  assert (HUne : U <> []) by (intros E0; rewrite E0 in HhU; contradiction).
  assert (HndAU : NoDup (pa_elems A ++ U)).
  { apply NoDup_app_iff. split; [assumption|]. split; [now apply NoDup_filter|].
    intros a Ha Hu. apply unpl_In in Hu. tauto. }
  assert (Hwf : forall v, In v votes -> NoDup v /\ incl (pa_elems A ++ U) v).
  { intros v Hv. destruct (Hvotes v Hv) as [N1 N2]. split; [assumption|]. intros a Ha. apply N2, HBa.
    apply in_app_or in Ha. destruct Ha as [Ha|Ha]; [now apply HAB|]. apply unpl_In in Ha. tauto. }
  destruct (place_complete votes Hvne (fun a _ => N.eqb a h) A U HUne HndAU Hwf Hcomp)
    as (x1 & x2 & B1 & B2 & Hall & A' & ok & Hpl & _ & Hperm & Hcomp' & _ & Hneq).
  set (X := mkset x1 x2) in *.
  assert (HXU : forall a, In a X -> In a U).
  { intros a Ha. apply mkset_In in Ha. destruct Ha as [-> | ->]; [destruct B1 as (v & _ & H & _)|destruct B2 as (v & _ & H & _)]; exact H. }
  assert (HndL : NoDup (pa_elems A' ++ rest X U)) by (eapply Permutation_NoDup; [apply Permutation_sym; exact Hperm|exact HndAU]).
  assert (Hrest : forall a, In a (rest X U) <-> In a U /\ ~ In a X).
  { intros a. unfold rest. rewrite filter_In, negb_true_iff, memN_false. reflexivity. }
  assert (Hel : forall a, In a (pa_elems A') <-> In a (pa_elems A) \/ In a X).
  { intros a. split.
    - intros Ha. assert (H : In a (pa_elems A ++ U)) by (eapply Permutation_in; [exact Hperm|apply in_or_app; now left]).
      apply in_app_or in H. destruct H as [H|H]; [now left|right].
      destruct (in_dec N.eq_dec a X) as [Hi|Hn]; [assumption|exfalso].
      apply NoDup_app_iff in HndL. destruct HndL as (_ & _ & Hd). apply (Hd a Ha). apply Hrest. tauto.
    - intros Ha. assert (H : In a (pa_elems A ++ U)) by (apply in_or_app; destruct Ha as [Ha|Ha]; [now left|right; now apply HXU]).
      apply (Permutation_in a (Permutation_sym Hperm)) in H. apply in_app_or in H. destruct H as [H|H]; [assumption|exfalso].
      apply Hrest in H. destruct H as [HU HnX]. destruct Ha as [Ha|Ha]; [|contradiction].
      apply NoDup_app_iff in HndAU. destruct HndAU as (_ & _ & Hd). apply (Hd a Ha HU). }
  assert (HA'B : incl (pa_elems A') B).
  { intros a Ha. apply Hel in Ha. destruct Ha as [Ha|Ha]; [now apply HAB|]. apply HXU, unpl_In in Ha. tauto. }
  assert (HndA' : NoDup (pa_elems A')) by (apply NoDup_app_iff in HndL; tauto).
  assert (Hcomp2 : completable votes A' (unpl A' B)).
  { apply (completable_perm A' (rest X U)); [|assumption].
    apply NoDup_Permutation; [apply NoDup_filter; now apply NoDup_filter|now apply NoDup_filter|].
    intros a. rewrite Hrest, unpl_In. unfold U. rewrite unpl_In, Hel. tauto. }
  assert (Hh : h = x1 \/ h = x2) by now apply Hall.
  destruct (N.eq_dec x1 x2) as [E12|N12].
  - (* one alternative *)
    subst x2. assert (h = x1) by tauto. subst x1.
    assert (EX : X = [h]) by (unfold X, mkset; now rewrite N.eqb_refl).
    exists [h], A'. split; [now left|]. split.
    { rewrite EX in Hpl. cbn [place] in Hpl. unfold place_t. cbn [place]. now rewrite Hpl. }
    split; [assumption|]. split; [assumption|]. split; [assumption|]. split; [assumption|]. split.
    + intros a. rewrite Hel, EX. reflexivity.
    + intros h' Hh'. destruct (Hall h' Hh') as [-> | ->]; now left.
  - (* two alternatives *)
    assert (Hy : exists y, (h = x1 /\ y = x2) \/ (h = x2 /\ y = x1)).
    { destruct Hh as [-> | ->]; [exists x2|exists x1]; auto. }
    destruct Hy as (y & Hhy).
    assert (HX : forall a, In a X <-> In a [h; y]).
    { intros a. unfold X. rewrite mkset_In. simpl. destruct Hhy as [[-> ->]|[-> ->]]; intuition. }
    exists [h; y], A'. split.
    { right. exists y. split; [reflexivity|]. split; [destruct Hhy as [[-> ->]|[-> ->]]; congruence|].
      apply HXU, HX. right. now left. }
    split.
    { unfold X in Hpl. rewrite (place_mkset A x1 x2 h y votes N12 Hhy) in Hpl. now rewrite Hpl. }
    split; [assumption|]. split; [assumption|]. split; [assumption|]. split; [assumption|]. split.
    + intros a. rewrite Hel, HX. reflexivity.
    + intros h' Hh'. apply HX. apply mkset_In. now apply Hall.
Qed.

(* ---------------------------------------------------------------------------------------------- *)
(* the target partition                                                                            *)

Lemma Permutation_concat {T} (l l' : list (list T)) : Permutation l l' -> Permutation (concat l) (concat l').
Proof.
  induction 1; simpl.
  - constructor.
  - now apply Permutation_app_head.
  - rewrite !app_assoc. apply Permutation_app_tail. apply Permutation_app_comm.
  - eapply perm_trans; eauto.
Qed.

Lemma perm_to_end {T} (a : list T) x r : Permutation (a ++ x :: r) (a ++ r ++ [x]).
Proof. apply Permutation_app_head. apply Permutation_cons_append. Qed.

Lemma blocks_disjoint (BL1 : list (list N)) B B2 x :
  NoDup (concat (BL1 ++ [B])) -> In B2 BL1 -> In x B2 -> In x B -> False.
Proof.
  rewrite concat_app. simpl. rewrite app_nil_r. intros H HB2 Hx2 Hx. apply NoDup_app_iff in H.
  destruct H as (_ & _ & Hd). apply (Hd x); [|assumption]. apply in_concat. eauto.
Qed.

Variable Tgt : list (list N).
Hypothesis HT_nd : NoDup (concat Tgt).
Hypothesis HT_in : incl (concat Tgt) alts.
Hypothesis HT_cov : forall a, In a alts -> In a (concat Tgt).
Hypothesis HT_sp : forall B, In B Tgt -> completable votes pa_empty B.

Lemma block_facts B : In B Tgt -> NoDup B /\ incl B alts.
Proof.
  intros HB. split.
  - apply NoDup_concat_iff in HT_nd. destruct HT_nd as [H _]. rewrite Forall_forall in H. auto.
  - intros a Ha. apply HT_in. apply in_concat. eauto.
Qed.

Definition RelP (p : paxis * list N) : Prop :=
  incl (pa_elems (fst p)) (snd p) /\ NoDup (pa_elems (fst p)) /\
  completable votes (fst p) (unpl (fst p) (snd p)) /\ pa_elems (fst p) <> [].

(* the axes can be paired with distinct blocks of the target *)
Definition Compat (res : list paxis) : Prop :=
  exists P F, res = map fst P /\ Permutation Tgt (map snd P ++ F) /\ Forall RelP P.

(* untouched pairs at a level: the started axes not yet extended at this level, and the free blocks *)
Definition UP (PUs : list (paxis * list N)) (Fs : list (list N)) : list (paxis * list N) :=
  PUs ++ map (pair pa_empty) Fs.

Lemma UP_snd PUs Fs q : In q (UP PUs Fs) -> In (snd q) (map snd PUs ++ Fs).
Proof.
  unfold UP. intros H. apply in_app_or in H. apply in_or_app. destruct H as [H|H]; [left; now apply in_map|right].
  apply in_map_iff in H. destruct H as (B & <- & HB). exact HB.
Qed.

Lemma filter_skip (l : list (paxis * list N)) A :
  (forall q, In q l -> fst q <> A) -> filter (fun a => negb (pa_eqb a A)) (map fst l) = map fst l.
Proof.
  intros H. apply filter_all_true. intros a Ha. apply in_map_iff in Ha. destruct Ha as (q & <- & Hq).
  apply negb_true_iff. destruct (pa_eqb (fst q) A) eqn:Eq; [|reflexivity]. apply pa_eqb_eq in Eq. now apply H in Hq.
Qed.

Lemma level_step : forall n items later PUs Fs PD,
  length items <= n ->
  Permutation Tgt (map snd PUs ++ Fs ++ map snd PD) ->
  Forall RelP (PUs ++ PD) ->
  NoDup (items ++ later) ->
  (forall A B y, In (A, B) (UP PUs Fs) -> In y (unpl A B) -> In y (items ++ later)) ->
  (forall h, In h items -> exists A B, In (A, B) (UP PUs Fs) /\ In h (unpl A B)) ->
  (forall A B h, In (A, B) (UP PUs Fs) -> In h items -> In h (unpl A B) -> isbottom votes (unpl A B) h) ->
  exists ext, Canon items later ext /\ length ext <= length PUs + length Fs /\
    forall lim, length Tgt <= lim ->
    exists res, ExtR votes lim (map fst PUs) (map fst PD) ext res /\ Compat res /\
      (forall a, In a (E (map fst PUs ++ map fst PD)) -> In a (E res)) /\
      (forall h, In h items -> In h (E res)).
Proof.
  induction n as [|n IH]; intros items later PUs Fs PD Hlen Hperm HR Hnl J1 J2 J3.
  - destruct items; [|simpl in Hlen; lia]. exists []. split; [constructor|]. split; [simpl; lia|].
    intros lim _. exists (map fst PUs ++ map fst PD). split; [constructor|]. split; [|split; [auto|intros h []]].
    exists (PUs ++ PD), Fs. split; [now rewrite map_app|]. split; [|assumption].
    rewrite map_app, <- app_assoc. eapply perm_trans; [exact Hperm|]. apply Permutation_app_head. apply Permutation_app_comm.
  - destruct items as [|h tail].
    { exists []. split; [constructor|]. split; [simpl; lia|].
      intros lim _. exists (map fst PUs ++ map fst PD). split; [constructor|]. split; [|split; [auto|intros h []]].
      exists (PUs ++ PD), Fs. split; [now rewrite map_app|]. split; [|assumption].
      rewrite map_app, <- app_assoc. eapply perm_trans; [exact Hperm|]. apply Permutation_app_head. apply Permutation_app_comm. }
    destruct (J2 h (or_introl eq_refl)) as (A & B & HAB & HhU).
    pose proof (J3 A B h HAB (or_introl eq_refl) HhU) as Hbot.
    assert (HBT : In B Tgt).
    { eapply Permutation_in; [apply Permutation_sym; exact Hperm|]. apply (UP_snd PUs Fs (A, B)) in HAB. cbn [snd] in HAB.
      rewrite app_assoc. apply in_or_app. now left. }
    destruct (block_facts B HBT) as [HBnd HBa].
    assert (HrelAB : incl (pa_elems A) B /\ NoDup (pa_elems A) /\ completable votes A (unpl A B)).
    { unfold UP in HAB. apply in_app_or in HAB. destruct HAB as [H|H].
      - rewrite Forall_forall in HR. destruct (HR (A, B)) as (R1 & R2 & R3 & _); [apply in_or_app; now left|]. auto.
      - apply in_map_iff in H. destruct H as (B0 & E0 & _). injection E0 as <- <-.
        split; [intros a []|]. split; [constructor|]. rewrite unpl_empty. now apply HT_sp. }
    destruct HrelAB as (R1 & R2 & R3).
    destruct (piece_step A B h HBnd HBa R1 R2 R3 Hbot) as (p & A' & Hp & Hpl & Hneq & Q1 & Q2 & Q3 & Hel & Hbots).
    (* the partner, if any *)
    set (pairing := match p with [_; y] => Some y | _ => None end).
    assert (Hpair : (p = [h] /\ pairing = None) \/ (exists y, p = [h; y] /\ pairing = Some y /\ y <> h /\ In y (unpl A B))).
    { destruct Hp as [->|(y & -> & Hy1 & Hy2)]; [left; auto|right; exists y; auto]. }
    assert (HpB : forall a, In a p -> In a B).
    { intros a Ha. destruct Hpair as [[-> _]|(y & -> & _ & _ & Hy)].
      - destruct Ha as [<-|[]]. apply unpl_In in HhU. tauto.
      - destruct Ha as [<-|[<-|[]]]; [apply unpl_In in HhU|apply unpl_In in Hy]; tauto. }
    assert (Hpp : forall a, In a p <-> a = h \/ pairing = Some a).
    { intros a. destruct Hpair as [[-> ->]|(y & -> & -> & _ & _)]; simpl.
      - split; [intros [<-|[]]; now left|intros [->|H]; [now left|discriminate]].
      - split; [intros [<-|[<-|[]]]; auto|intros [->|H]; [now left|injection H as ->; right; now left]]. }
    assert (Hnl2 : ~ In h (tail ++ later) /\ NoDup (tail ++ later)) by (simpl in Hnl; now apply NoDup_cons_iff in Hnl).
    destruct Hnl2 as [Hh_notin Hnl'].
    (* the new state, for both positions of (A, B) *)
    assert (Hcase : exists PUs' Fs',
      Permutation (map snd PUs ++ Fs ++ map snd PD) (map snd PUs' ++ Fs' ++ map snd PD ++ [B]) /\
      (forall q, In q (UP PUs' Fs') -> In q (UP PUs Fs)) /\
      (forall q, In q (UP PUs Fs) -> q = (A, B) \/ In q (UP PUs' Fs')) /\
      Forall RelP PUs' /\
      (forall lim e res, length Tgt <= lim -> ExtR votes lim (map fst PUs') (map fst PD ++ [A']) e res ->
                         ExtR votes lim (map fst PUs) (map fst PD) (p :: e) res) /\
      length PUs' + length Fs' + 1 = length PUs + length Fs /\
      (forall a, In a (E (map fst PUs ++ map fst PD)) -> In a (E (map fst PUs' ++ map fst PD ++ [A'])))).
    { unfold UP in HAB. apply in_app_or in HAB. destruct HAB as [H|H].
      - apply in_split in H. destruct H as (P1 & P2 & ->). exists (P1 ++ P2), Fs.
        assert (Ca0 : Permutation (map snd (P1 ++ (A, B) :: P2) ++ Fs ++ map snd PD)
                                  (map snd (P1 ++ P2) ++ Fs ++ map snd PD ++ [B])).
        { rewrite !map_app. simpl. rewrite <- !app_assoc. simpl.
          replace (map snd P2 ++ Fs ++ map snd PD ++ [B]) with ((map snd P2 ++ Fs ++ map snd PD) ++ [B])
            by (rewrite <- !app_assoc; reflexivity).
          apply perm_to_end. }
        assert (HndBL : NoDup (concat ((map snd (P1 ++ P2) ++ Fs ++ map snd PD) ++ [B]))).
        { eapply Permutation_NoDup; [|exact HT_nd]. apply Permutation_concat. eapply perm_trans; [exact Hperm|].
          eapply perm_trans; [exact Ca0|]. rewrite <- !app_assoc. apply Permutation_refl. }
        split; [|split; [|split; [|split; [|split; [|split]]]]].
        + exact Ca0.
        + intros q Hq. unfold UP in *. apply in_app_or in Hq. apply in_or_app. destruct Hq as [Hq|Hq]; [left|now right].
          apply in_app_or in Hq. apply in_or_app. destruct Hq; [now left|right; now right].
        + intros q Hq. unfold UP in *. apply in_app_or in Hq. destruct Hq as [Hq|Hq]; [|right; apply in_or_app; now right].
          apply in_app_or in Hq. destruct Hq as [Hq|[Hq|Hq]]; [right|now left|right]; apply in_or_app; left; apply in_or_app; auto.
        + rewrite Forall_forall in *. intros q Hq. apply HR. apply in_or_app. left.
          apply in_app_or in Hq. apply in_or_app. destruct Hq; [now left|right; now right].
        + intros lim e res _ HE. apply (ExtR_old votes lim _ _ p e res A A'); auto.
          * apply in_map_iff. exists (A, B). split; [reflexivity|]. apply in_or_app. right. now left.
          * assert (Hskip : filter (fun a => negb (pa_eqb a A)) (map fst (P1 ++ (A, B) :: P2)) = map fst (P1 ++ P2)).
            { rewrite !map_app. simpl. rewrite filter_app. simpl. rewrite pa_eqb_refl. simpl.
              assert (Hd : forall q, In q (P1 ++ P2) -> fst q <> A).
              { intros q Hq Eq. rewrite Forall_forall in HR.
                destruct (HR q) as (S1 & _ & _ & S4).
                { apply in_or_app. left. apply in_app_or in Hq. apply in_or_app. destruct Hq; [now left|right; now right]. }
                destruct (pa_elems (fst q)) as [|x r] eqn:Ex; [congruence|].
                apply (blocks_disjoint _ B (snd q) x HndBL).
                - apply in_or_app. left. now apply in_map.
                - apply S1. now left.
                - apply R1. rewrite <- Eq, Ex. now left. }
              rewrite <- filter_app, <- map_app. now apply filter_skip. }
            rewrite Hskip. exact HE.
        + rewrite !app_length. simpl. lia.
        + intros a Ha. unfold E in *. apply in_flat_map in Ha. destruct Ha as (X & HX & HaX). apply in_flat_map.
          apply in_app_or in HX. destruct HX as [HX|HX].
          * rewrite map_app in HX. simpl in HX. apply in_app_or in HX. destruct HX as [HX|[HX|HX]].
            -- exists X. split; [|assumption]. apply in_or_app. left. rewrite map_app. apply in_or_app. now left.
            -- subst X. exists A'. split; [|apply Hel; now left]. apply in_or_app. right. apply in_or_app. right. now left.
            -- exists X. split; [|assumption]. apply in_or_app. left. rewrite map_app. apply in_or_app. now right.
          * exists X. split; [|assumption]. apply in_or_app. right. apply in_or_app. now left.
      - apply in_map_iff in H. destruct H as (B0 & E0 & HB0). injection E0 as EA EB. subst B0. subst A.
        apply in_split in HB0. destruct HB0 as (F1 & F2 & ->). exists PUs, (F1 ++ F2).
        split; [|split; [|split; [|split; [|split; [|split]]]]].
        + apply Permutation_app_head. rewrite <- !app_assoc. apply Permutation_app_head. simpl.
          replace (F2 ++ map snd PD ++ [B]) with ((F2 ++ map snd PD) ++ [B]) by (rewrite <- !app_assoc; reflexivity).
          apply Permutation_cons_append.
        + intros q Hq. unfold UP in *. apply in_app_or in Hq. apply in_or_app. destruct Hq as [Hq|Hq]; [now left|right].
          rewrite map_app in *. apply in_app_or in Hq. apply in_or_app. destruct Hq; [now left|right; now right].
        + intros q Hq. unfold UP in *. apply in_app_or in Hq. destruct Hq as [Hq|Hq]; [right; apply in_or_app; now left|].
          rewrite map_app in Hq. apply in_app_or in Hq. destruct Hq as [Hq|[Hq|Hq]]; [right|left; now symmetry|right];
            apply in_or_app; right; rewrite map_app; apply in_or_app; auto.
        + rewrite Forall_forall in *. intros q Hq. apply HR. apply in_or_app. now left.
        + intros lim e res Hlim HE. apply (ExtR_new votes lim _ _ p e res A'); auto.
          apply Permutation_length in Hperm. rewrite !app_length, !map_length in *. simpl in Hperm. lia.
        + rewrite !app_length. simpl. lia.
        + intros a Ha. unfold E in *. apply in_flat_map in Ha. destruct Ha as (X & HX & HaX). apply in_flat_map.
          exists X. split; [|assumption]. apply in_app_or in HX. apply in_or_app. destruct HX as [HX|HX]; [now left|right].
          apply in_or_app. now left. }
    destruct Hcase as (PUs' & Fs' & Ca & Cb & Cc & Cd & Ce & Cf & Cg).
    assert (HndBL' : NoDup (concat ((map snd PUs' ++ Fs' ++ map snd PD) ++ [B]))).
    { eapply Permutation_NoDup; [|exact HT_nd]. apply Permutation_concat. eapply perm_trans; [exact Hperm|].
      eapply perm_trans; [exact Ca|]. rewrite <- !app_assoc. apply Permutation_refl. }
    assert (Hother : forall q y, In q (UP PUs' Fs') -> In y (snd q) -> ~ In y B).
    { intros q y Hq Hy HyB. apply (blocks_disjoint _ B (snd q) y HndBL'); auto.
      apply UP_snd in Hq. rewrite app_assoc. apply in_or_app. now left. }
    assert (HhA' : forall a, In a p -> In a (pa_elems A')) by (intros a Ha; apply Hel; now right).
    destruct (IH (removeN pairing tail) (removeN pairing later) PUs' Fs' (PD ++ [(A', B)])) as (ext' & Hcan & Hlen' & Hres).
    + pose proof (removeN_length pairing tail). simpl in Hlen. lia.
    + rewrite map_app. simpl. eapply perm_trans; [exact Hperm|]. exact Ca.
    + rewrite app_assoc. apply Forall_app. split.
      * apply Forall_app. split; [assumption|]. rewrite Forall_forall in *. intros q Hq. apply HR. apply in_or_app. now right.
      * constructor; [|constructor]. unfold RelP. cbn [fst snd]. split; [assumption|]. split; [assumption|].
        split; [assumption|]. intros E0. specialize (HhA' h (proj2 (Hpp h) (or_introl eq_refl))). rewrite E0 in HhA'. contradiction.
    + now apply NoDup_removeN_app.
    + intros A2 B2 y Hq Hy. specialize (J1 A2 B2 y (Cb _ Hq) Hy).
      assert (HyB : ~ In y B) by (apply (Hother (A2, B2) y Hq); apply unpl_In in Hy; tauto).
      assert (Hyp : ~ In y p) by (intros H; apply HyB; now apply HpB).
      rewrite Hpp in Hyp. destruct J1 as [->|J1]; [tauto|].
      apply in_app_or in J1. apply in_or_app. destruct J1 as [J1|J1]; [left|right]; apply removeN_In; split; auto;
        intros E0; apply Hyp; now right.
    + intros h' Hh'. apply removeN_In in Hh'. destruct Hh' as [Hh' Hnp].
      destruct (J2 h' (or_intror Hh')) as (A2 & B2 & Hq & Hu). destruct (Cc _ Hq) as [E0|Hq']; [|eauto].
      injection E0 as -> ->. exfalso. specialize (J3 A B h' Hq (or_intror Hh') Hu). apply Hbots in J3.
      apply Hpp in J3. destruct J3 as [->|J3]; [apply Hh_notin; apply in_or_app; now left|congruence].
    + intros A2 B2 h' Hq Hh' Hu. apply removeN_In in Hh'. destruct Hh' as [Hh' _].
      apply (J3 A2 B2 h' (Cb _ Hq) (or_intror Hh') Hu).
    + exists (p :: ext'). split; [|split].
      * destruct Hpair as [[-> ->]|(y & -> & -> & Hyh & Hy)].
        -- simpl in Hcan. now constructor.
        -- constructor; [|assumption]. specialize (J1 A B y HAB Hy). destruct J1 as [->|J1]; [congruence|assumption].
      * simpl. lia.
      * intros lim Hlim. destruct (Hres lim Hlim) as (res & HE & HC & Hm & Hit). exists res.
        rewrite map_app in HE. simpl in HE. split; [now apply Ce|]. split; [assumption|]. split.
        -- intros a Ha. apply Hm. rewrite map_app. simpl. now apply Cg.
        -- assert (HA'res : forall a, In a (pa_elems A') -> In a (E res)).
           { intros a Ha. apply Hm. rewrite map_app. simpl. rewrite !E_app. unfold E at 3. simpl. rewrite app_nil_r, !in_app_iff. auto. }
           intros h' [<-|Hh']; [apply HA'res, HhA', Hpp; now left|].
           destruct (in_dec N.eq_dec h' (removeN pairing tail)) as [Hi|Hn]; [now apply Hit|].
           apply HA'res, HhA', Hpp. right. destruct pairing as [y|]; [|exfalso; apply Hn; exact Hh'].
           destruct (N.eq_dec h' y) as [->|Hne]; [reflexivity|]. exfalso. apply Hn. apply removeN_In. split; [assumption|congruence].
Qed.

(* ---------------------------------------------------------------------------------------------- *)
(* the levels and the DFS                                                                          *)

Fixpoint LevelsOK (D : list N) (Ls : list (list N)) : Prop :=
  match Ls with
  | [] => True
  | L1 :: rest =>
    (forall x, In x L1 -> exists v, In v votes /\ forall b, In b alts -> ~ In b D -> b <> x -> rk v b < rk v x) /\
    LevelsOK (D ++ L1) rest
  end.

Lemma Compat_length res : Compat res -> length res <= length Tgt.
Proof.
  intros (P & F & -> & Hp & _). apply Permutation_length in Hp. rewrite app_length, !map_length in *. lia.
Qed.

(* an unplaced alternative of an untouched block lies on no axis *)
Lemma UP_unplaced P F A B y :
  Permutation Tgt (map snd P ++ F) -> Forall RelP P -> In (A, B) (UP P F) -> In y (unpl A B) ->
  ~ In y (E (map fst P)).
Proof.
  intros Hp HR HAB Hy Hin. apply unpl_In in Hy. destruct Hy as [HyB HyA].
  unfold E in Hin. apply in_flat_map in Hin. destruct Hin as (X & HX & HyX).
  apply in_map_iff in HX. destruct HX as (q & <- & Hq).
  rewrite Forall_forall in HR. destruct (HR q Hq) as (S1 & _). pose proof HyX as HyX0. apply S1 in HyX.
  assert (Hnd : NoDup (concat (map snd P ++ F))) by (eapply Permutation_NoDup; [apply Permutation_concat; exact Hp|exact HT_nd]).
  unfold UP in HAB. apply in_app_or in HAB. destruct HAB as [H|H].
  - apply in_split in H. destruct H as (P1 & P2 & ->). apply in_app_or in Hq. destruct Hq as [Hq|[Hq|Hq]].
    + rewrite map_app in Hnd. simpl in Hnd. rewrite <- app_assoc, concat_app in Hnd. apply NoDup_app_iff in Hnd.
      destruct Hnd as (_ & _ & Hd). apply (Hd y); [apply in_concat; exists (snd q); split; [now apply in_map|assumption]|].
      simpl. apply in_or_app. now left.
    + subst q. cbn [fst] in HyX0. contradiction.
    + rewrite map_app in Hnd. simpl in Hnd. rewrite <- app_assoc, concat_app in Hnd. apply NoDup_app_iff in Hnd.
      destruct Hnd as (_ & Hnd & _). simpl in Hnd. apply NoDup_app_iff in Hnd. destruct Hnd as (_ & _ & Hd).
      apply (Hd y HyB). rewrite concat_app. apply in_or_app. left. apply in_concat. exists (snd q). split; [now apply in_map|assumption].
  - apply in_map_iff in H. destruct H as (B0 & E0 & HB0). injection E0 as _ ->.
    rewrite concat_app in Hnd. apply NoDup_app_iff in Hnd. destruct Hnd as (_ & _ & Hd). apply (Hd y).
    + apply in_concat. exists (snd q). split; [now apply in_map|assumption].
    + apply in_concat. eauto.
Qed.

Section Dfs.
Variable set_order : list N -> list N.
Hypothesis Hord : forall L, Permutation L (set_order L).

Definition Gacc (acc : option (list paxis)) : Prop := exists r, acc = Some r /\ length r <= length Tgt.

Lemma Gacc_dec acc : Gacc acc \/ (forall s, acc = Some s -> length Tgt < length s).
Proof.
  destruct acc as [s|]; [|right; intros s E0; discriminate].
  destruct (le_lt_dec (length s) (length Tgt)); [left; exists s; auto|right; intros s' E0; injection E0 as <-; assumption].
Qed.

Lemma inner_pres rest k acc ax : Gacc acc ->
  Gacc (if shorter ax acc then
          match dfs set_order rest ax acc k votes with
          | Some completed => if shorter completed acc then Some completed else acc
          | None => acc
          end
        else acc).
Proof.
  intros HG. destruct (shorter ax acc); [|assumption]. destruct (dfs set_order rest ax acc k votes) as [c|]; [|assumption].
  destruct (shorter c acc) eqn:Es; [|assumption]. destruct HG as (r & -> & Hr). simpl in Es. apply Nat.ltb_lt in Es.
  exists c. split; [reflexivity|lia].
Qed.

Lemma limit_ge k acc : length Tgt <= k -> (forall s, acc = Some s -> length Tgt < length s) -> length Tgt <= limit_of k acc.
Proof. intros Hk H. destruct acc as [s|]; simpl; [|assumption]. specialize (H s eq_refl). lia. Qed.

Lemma dfs_complete : forall Ls D axes sh k,
  LevelsOK D Ls -> NoDup (concat Ls) -> incl (concat Ls) alts ->
  (forall a, In a D -> In a (E axes)) -> (forall a, In a alts -> In a (E axes) \/ In a (concat Ls)) ->
  Compat axes -> length Tgt <= k ->
  Gacc (dfs set_order Ls axes sh k votes).
Proof.
  induction Ls as [|L1 rest IH]; intros D axes sh k HLv Hnd Hincl HD Hcov HC Hk.
  - simpl. exists axes. split; [reflexivity|now apply Compat_length].
  - cbn [dfs].
    set (g := fun a => negb (memN a (flat_map pa_elems axes))).
    set (new := filter g (set_order L1)). set (later := filter g (flat_map set_order rest)).
    (* every step preserves Gacc *)
    assert (Hpres : forall acc ext, Gacc acc ->
      Gacc (if length ext <=? limit_of k acc then
              fold_left (fun sh0 ax => if shorter ax sh0 then
                                         match dfs set_order rest ax sh0 k votes with
                                         | Some completed => if shorter completed sh0 then Some completed else sh0
                                         | None => sh0
                                         end
                                       else sh0) (extend axes ext votes (limit_of k acc)) acc
            else acc)).
    { intros acc ext HG. destruct (length ext <=? limit_of k acc); [|assumption].
      apply fold_left_inv; [|assumption]. intros ax _ s' Hs'. now apply inner_pres. }
    destruct (Gacc_dec sh) as [HG|HnG].
    { apply fold_left_inv; [|assumption]. intros ext _ s' Hs'. now apply Hpres. }
    (* the compatible extension *)
    simpl in Hnd, Hincl, HLv. destruct HLv as [HL1 HLrest].
    apply NoDup_app_iff in Hnd. destruct Hnd as (Hnd1 & Hnd2 & Hdis).
    assert (Hg : forall a, g a = true <-> ~ In a (E axes)).
    { intros a. unfold g. rewrite negb_true_iff, memN_false. reflexivity. }
    assert (Hpermall : Permutation (L1 ++ concat rest) (set_order L1 ++ flat_map set_order rest)).
    { apply Permutation_app; [apply Hord|]. clear -Hord. induction rest as [|L r IHr]; simpl; [constructor|].
      apply Permutation_app; [apply Hord|assumption]. }
    assert (Hnl : NoDup (new ++ later)).
    { unfold new, later. rewrite <- filter_app. apply NoDup_filter.
      eapply Permutation_NoDup; [exact Hpermall|]. apply NoDup_app_iff. auto. }
    assert (Hnl_in : forall a, In a (new ++ later) <-> In a (L1 ++ concat rest) /\ ~ In a (E axes)).
    { intros a. unfold new, later. rewrite <- filter_app, filter_In, Hg. split; intros [H1 H2]; (split; [|assumption]).
      - eapply Permutation_in; [apply Permutation_sym; exact Hpermall|exact H1].
      - eapply Permutation_in; [exact Hpermall|exact H1]. }
    assert (Hnew_in : forall a, In a new <-> In a L1 /\ ~ In a (E axes)).
    { intros a. unfold new. rewrite filter_In, Hg. split; intros [H1 H2]; (split; [|assumption]).
      - eapply Permutation_in; [apply Permutation_sym; apply Hord|exact H1].
      - eapply Permutation_in; [apply Hord|exact H1]. }
    destruct HC as (P & F & Eax & HpT & HRP).
    assert (Hunpl : forall A B y, In (A, B) (UP P F) -> In y (unpl A B) -> In y alts /\ ~ In y (E axes)).
    { intros A B y HAB Hy. split.
      - apply UP_snd in HAB. cbn [snd] in HAB. apply HT_in. apply in_concat. exists B. split.
        + eapply Permutation_in; [apply Permutation_sym; exact HpT|exact HAB].
        + apply unpl_In in Hy. tauto.
      - rewrite Eax. eapply UP_unplaced; eauto. }
    destruct (level_step (length new) new later P F []) as (ext & Hcan & Hlen & Hres).
    + lia.
    + simpl. now rewrite app_nil_r.
    + now rewrite app_nil_r.
    + exact Hnl.
    + intros A B y HAB Hy. destruct (Hunpl A B y HAB Hy) as [Hya Hyn]. apply Hnl_in. split; [|assumption].
      destruct (Hcov y Hya) as [H|H]; [contradiction|exact H].
    + intros h Hh. apply Hnew_in in Hh. destruct Hh as [HhL Hhn].
      assert (Hha : In h alts) by (apply Hincl; apply in_or_app; now left).
      apply HT_cov in Hha. apply in_concat in Hha. destruct Hha as (B & HB & HhB).
      apply (Permutation_in B HpT) in HB. apply in_app_or in HB. destruct HB as [HB|HB].
      * apply in_map_iff in HB. destruct HB as (q & <- & Hq). exists (fst q), (snd q). split.
        -- unfold UP. apply in_or_app. left. now destruct q.
        -- apply unpl_In. split; [assumption|]. intros Hi. apply Hhn. rewrite Eax. unfold E. apply in_flat_map.
           exists (fst q). split; [now apply in_map|assumption].
      * exists pa_empty, B. split; [unfold UP; apply in_or_app; right; now apply in_map|].
        rewrite unpl_empty. assumption.
    + intros A B h HAB Hh HhU. apply Hnew_in in Hh. destruct Hh as [HhL _].
      destruct (HL1 h HhL) as (v & Hv & Hlast). exists v. split; [assumption|]. split; [assumption|].
      intros u Hu Hne. destruct (Hunpl A B u HAB Hu) as [Hua Hun]. apply Hlast; auto.
    + (* ext is enumerated, its result is explored *)
      assert (HlenT : length ext <= length Tgt).
      { apply Permutation_length in HpT. rewrite app_length, map_length in HpT. lia. }
      apply (fold_left_hit _ Gacc _ ext).
      * apply spc_complete; [exact Hnl|exact Hcan|lia|]. pose proof (limit_ge k sh Hk HnG). lia.
      * intros acc. destruct (Gacc_dec acc) as [HGa|HnGa]; [now apply Hpres|].
        pose proof (limit_ge k acc Hk HnGa) as Hlim.
        assert (Etest : (length ext <=? limit_of k acc) = true) by (apply Nat.leb_le; lia). rewrite Etest.
        destruct (Hres (limit_of k acc) Hlim) as (res & HE & HCres & Hm & Hit).
        simpl in HE. rewrite <- Eax in HE.
        apply (fold_left_hit _ Gacc _ res).
        -- now apply extend_complete.
        -- intros acc2. destruct (Gacc_dec acc2) as [HG2|HnG2]; [now apply inner_pres|].
           assert (Hsh : shorter res acc2 = true).
           { destruct acc2 as [s2|]; [|reflexivity]. simpl. apply Nat.ltb_lt. pose proof (Compat_length res HCres).
             specialize (HnG2 s2 eq_refl). lia. }
           rewrite Hsh.
           assert (Em : E (map fst P ++ map fst (@nil (paxis * list N))) = E axes) by (simpl; now rewrite app_nil_r, Eax).
           destruct (IH (D ++ L1) res acc2 k HLrest Hnd2) as (c & Ec & Hc); auto.
           ++ intros a Ha. apply Hincl. apply in_or_app. now right.
           ++ intros a Ha. apply in_app_or in Ha. destruct Ha as [Ha|Ha].
              ** apply Hm. rewrite Em. now apply HD.
              ** destruct (in_dec N.eq_dec a (E axes)) as [Hi|Hn]; [apply Hm; now rewrite Em|].
                 apply Hit. apply Hnew_in. auto.
           ++ intros a Ha. destruct (Hcov a Ha) as [H|H]; [left; apply Hm; now rewrite Em|].
              apply in_app_or in H. destruct H as [H|H]; [|now right]. left.
              destruct (in_dec N.eq_dec a (E axes)) as [Hi|Hn]; [apply Hm; now rewrite Em|].
              apply Hit. apply Hnew_in. auto.
           ++ rewrite Ec.
              assert (Hsc : shorter c acc2 = true).
              { destruct acc2 as [s2|]; [|reflexivity]. simpl. apply Nat.ltb_lt. specialize (HnG2 s2 eq_refl). lia. }
              rewrite Hsc. exists c. auto.
        -- intros s y Hs. now apply inner_pres.
      * intros s y Hs. now apply Hpres.
Qed.
End Dfs.

End Complete.

(* ---------------------------------------------------------------------------------------------- *)
(* the levels of get_L_sets satisfy LevelsOK                                                       *)

Section LevelsOfL.
Variables (alts : list N) (votes : list (list N)).
Hypothesis Hvotes : forall v, In v votes -> NoDup v /\ incl alts v.

Fixpoint Ltail (k n : nat) : list (list N) :=
  match n with 0 => [] | S n' => next_level alts votes (Lspec alts votes k) :: Ltail (S k) n' end.

Lemma Lspec_tail n : forall k, Lspec alts votes (k + n) = Lspec alts votes k ++ Ltail k n.
Proof.
  induction n as [|n IH]; intros k; simpl; [now rewrite Nat.add_0_r, app_nil_r|].
  rewrite <- Nat.add_succ_comm, IH. simpl. now rewrite <- app_assoc.
Qed.

Lemma LevelsOK_tail n : forall k, LevelsOK alts votes (concat (Lspec alts votes k)) (Ltail k n).
Proof.
  induction n as [|n IH]; intros k; simpl; [exact I|]. split.
  - intros x Hx. apply (next_level_iff alts votes Hvotes) in Hx. destruct Hx as (_ & v & Hv & Hlast).
    exists v. split; [assumption|]. intros b Hb HbD Hne. apply Hlast; [|assumption].
    unfold Gd. apply andb_true_iff. split; [now apply memN_In|]. apply negb_true_iff. now apply memN_false.
  - specialize (IH (S k)). simpl in IH. rewrite concat_app in IH. simpl in IH. now rewrite app_nil_r in IH.
Qed.

Lemma LevelsOK_get_L_sets : LevelsOK alts votes [] (get_L_sets alts votes).
Proof.
  rewrite get_L_sets_spec. pose proof (Lspec_tail (length alts) 0) as E0. simpl in E0. rewrite E0.
  exact (LevelsOK_tail (length alts) 0).
Qed.
End LevelsOfL.

(* ---------------------------------------------------------------------------------------------- *)
(* the theorems                                                                                    *)

Lemma axis_sp_spv alts votes axis :
  wf_profile alts votes -> NoDup axis -> incl axis alts -> axis_sp votes axis -> forall v, In v votes -> spv v axis.
Proof.
  intros Hwf Hnd Hincl Hsp v Hv. apply (axis_ok_correct alts votes axis Hwf Hnd Hincl) in Hsp.
  unfold axis_ok, sp_check_axis, spw_check_axis in Hsp. apply andb_true_iff in Hsp. destruct Hsp as [_ Hsp].
  unfold sp_axis_profile, restrict_profile in Hsp. rewrite forallb_forall in Hsp.
  destruct Hwf as [Ha Hc]. rewrite Forall_forall in Hc.
  assert (Hnv : NoDup v) by (eapply Permutation_NoDup; [apply Hc|]; eauto).
  assert (Hiv : incl axis v) by (intros a Ha'; eapply Permutation_in; [apply Hc; exact Hv|now apply Hincl]).
  specialize (Hsp (strictify (restrict_ranking axis v))).
  assert (Hin : In (strictify (restrict_ranking axis v)) (map strictify (map (restrict_ranking axis) votes))).
  { apply in_map. now apply in_map. }
  apply Hsp in Hin. apply sp_axis_weak_strictify in Hin. unfold restrict_ranking in Hin.
  apply (spv_filter (fun a => memN a axis) v axis Hnv Hiv) in Hin; [assumption|]. intros a Ha'. now apply memN_In.
Qed.

Theorem bf_complete_min set_order alts votes k axes :
  wf_profile alts votes -> votes <> [] -> (forall L, Permutation L (set_order L)) ->
  valid_partition alts votes axes -> length axes <= k ->
  exists res, bf_algo set_order alts votes k = Some res /\ length res <= length axes.
Proof.
  intros Hwf Hvne Hord Hvalid Hk. pose proof Hwf as [Hnd Hc]. rewrite Forall_forall in Hc.
  assert (Hvotes : forall v, In v votes -> NoDup v /\ incl alts v).
  { intros v Hv. split; [eapply Permutation_NoDup; [apply Hc|]; eauto|]. intros a Ha.
    eapply Permutation_in; [apply Hc|]; eauto. }
  (* the target: a minimum partition *)
  destruct (min_attained alts votes Hwf) as (Tgt & [HTp HTsp] & _ & HTlen).
  pose proof (valid_min_le alts votes axes Hwf Hvalid) as Hmin.
  assert (Hcap : min_partition alts votes <= (length alts + 1) / 2).
  { destruct alts as [|a0 al] eqn:Ea.
    - unfold min_partition. etransitivity; [apply list_min_le_d|]. simpl. lia.
    - rewrite <- Ea in *. apply min_partition_bounds; [assumption|]. rewrite Ea. discriminate. }
  assert (HT_nd : NoDup (concat Tgt)) by (eapply Permutation_NoDup; eauto).
  assert (HT_in : incl (concat Tgt) alts).
  { intros a Ha. eapply Permutation_in; [apply Permutation_sym; exact HTp|exact Ha]. }
  assert (HT_cov : forall a, In a alts -> In a (concat Tgt)) by (intros a Ha; eapply Permutation_in; eauto).
  assert (HT_sp : forall B, In B Tgt -> completable votes pa_empty B).
  { intros B HB. exists B. split; [apply Permutation_refl|]. intros v Hv. simpl. rewrite app_nil_r.
    destruct (perm_concat_block alts Tgt B Hnd HTp HB) as [HBn HBi].
    rewrite Forall_forall in HTsp. exact (axis_sp_spv alts votes B Hwf HBn HBi (HTsp B HB) v Hv). }
  unfold bf_algo.
  set (k' := if (length alts + 1) / 2 <? k then (length alts + 1) / 2 else k).
  assert (Hk' : length Tgt <= k').
  { unfold k'. destruct ((length alts + 1) / 2 <? k); lia. }
  destruct (L_sets_ok alts votes Hvne (fun v Hv => proj2 (Hvotes v Hv)) Hnd) as (L1 & L2 & L3).
  pose proof (LevelsOK_get_L_sets alts votes Hvotes) as HLv.
  assert (HD : forall a : N, In a [] -> In a (E [])) by (intros a []).
  assert (Hcov : forall a, In a alts -> In a (E []) \/ In a (concat (get_L_sets alts votes))) by (intros a Ha; right; now apply L3).
  assert (HC : Compat votes Tgt []).
  { exists [], Tgt. split; [reflexivity|]. split; [apply Permutation_refl|constructor]. }
  destruct (dfs_complete alts votes Hvne Hvotes Tgt HT_nd HT_in HT_cov HT_sp set_order Hord
              (get_L_sets alts votes) [] [] None k' HLv L1 L2 HD Hcov HC Hk') as (r & Er & Hr).
  rewrite Er. simpl. exists (map pa_elems r). split; [reflexivity|]. rewrite map_length. lia.
Qed.

(* the second sentence of the property holds of the mirror, for every size and every bound *)
Theorem bf_algo_ok set_order alts votes k :
  wf_profile alts votes -> votes <> [] -> (forall L, Permutation L (set_order L)) ->
  brute_force_ok alts votes k (bf_algo set_order alts votes k) = true.
Proof.
  intros Hwf Hvne Hord. destruct (le_lt_dec (min_partition alts votes) k) as [Hle|Hlt].
  - destruct (min_attained alts votes Hwf) as (axes0 & Hv0 & _ & Hlen0).
    destruct (bf_complete_min set_order alts votes k axes0 Hwf Hvne Hord Hv0) as (res & Er & Hres); [lia|].
    rewrite Er. destruct (bf_some_bounds set_order alts votes k res Hwf Hvne Hord Er) as [[Hb1 Hb2] Hok].
    apply Hok. lia.
  - rewrite (bf_none_when_infeasible set_order alts votes k Hwf Hvne Hord Hlt).
    unfold brute_force_ok, brute_force_ok_with.
    assert (E0 : (min_partition alts votes <=? k) = false) by (apply Nat.leb_gt; lia). now rewrite E0.
Qed.
