(* Proofs/CatIO.v — lemmas about Model/CatIO.v (categorical write / parse), used by Properties/C08.v.
   Part A: the ballot printer is inverted by tokenizer + category construction (C08_ties).
   Part B: one written ballot line is read back (ballot_of_line (ballot_line ..)).
   Part C: the stable sort (C08_sorted, C08_idempotent).
   Part D: header lines and the whole file (C08_roundtrip). *)
From Coq Require Import String List Arith NArith Bool Lia Permutation Sorted.
From PrefVerif Require Import Lib.Val Lib.Dec Lib.PyStr Model.Meta Model.CatIO Proofs.Meta.
Import ListNotations.

(* ================================================================================================ *)
(* A.0 small facts about result, split_on, characters                                               *)
(* ================================================================================================ *)
Lemma rseq_app {T} (l1 l2 : list (result T)) x1 x2 :
  rseq l1 = Ok x1 -> rseq l2 = Ok x2 -> rseq (l1 ++ l2) = Ok (x1 ++ x2).
Proof.
  revert x1. induction l1 as [|r l1 IH]; intros x1 H1 H2; simpl in *.
  - injection H1 as <-. exact H2.
  - destruct r as [a|e]; simpl in *; [|discriminate].
    destruct (rseq l1) as [y|e]; simpl in *; [|discriminate].
    injection H1 as <-. now rewrite (IH y eq_refl H2).
Qed.

Lemma split_on_nonnil sep s : split_on sep s <> [].
Proof.
  destruct s as [|c r]; simpl; [discriminate|].
  destruct (N.eqb c sep); [discriminate|]. destruct (split_on sep r); discriminate.
Qed.

Lemma split_on_app sep a b : split_on sep (a ++ sep :: b) = split_on sep a ++ split_on sep b.
Proof.
  induction a as [|c a IH]; simpl.
  - now rewrite N.eqb_refl.
  - destruct (N.eqb c sep); [now rewrite IH|].
    rewrite IH. pose proof (split_on_nonnil sep a) as NE.
    destruct (split_on sep a) as [|f fs]; [now elim NE|reflexivity].
Qed.

Definition lacks (x : N) (s : text) : bool := forallb (fun c => negb (N.eqb c x)) s.

Lemma split_on_none sep s : lacks sep s = true -> split_on sep s = [s].
Proof.
  induction s as [|c r IH]; simpl; [reflexivity|]. intros H. apply andb_true_iff in H as [Hc Hr].
  apply negb_true_iff in Hc. rewrite Hc. now rewrite (IH Hr).
Qed.

Lemma lacks_app x a b : lacks x (a ++ b) = lacks x a && lacks x b.
Proof. apply forallb_app. Qed.

Lemma forallb_impl {A} (f g : A -> bool) l :
  (forall x, f x = true -> g x = true) -> forallb f l = true -> forallb g l = true.
Proof. intros I. rewrite !forallb_forall. intros H x Hx. apply I, H, Hx. Qed.

Lemma digits_lack x s : is_digit x = false -> forallb is_digit s = true -> lacks x s = true.
Proof.
  intros Hx. apply forallb_impl. intros c Hc. apply negb_true_iff. apply N.eqb_neq. intros ->. congruence.
Qed.

Lemma show_N_lacks x n : is_digit x = false -> lacks x (show_N n) = true.
Proof. intros Hx. apply digits_lack; [exact Hx|apply show_N_digits]. Qed.

Lemma digit_is_run c : is_digit c = true -> is_run c = true.
Proof. unfold is_run. now intros ->. Qed.

Lemma show_N_runs n : forallb is_run (show_N n) = true.
Proof. eapply forallb_impl; [apply digit_is_run|apply show_N_digits]. Qed.

Lemma run_not_open c : is_run c = true -> (c =? 123)%N = false.
Proof. intros H. apply N.eqb_neq. intros ->. discriminate. Qed.
Lemma run_not_close c : is_run c = true -> (c =? 125)%N = false.
Proof. intros H. apply N.eqb_neq. intros ->. discriminate. Qed.

(* ================================================================================================ *)
(* A.1 ints_of                                                                                      *)
(* ================================================================================================ *)
Lemma ints_of_nil : ints_of [] = Ok [].
Proof. reflexivity. Qed.

Lemma ints_of_app_comma a b la lb :
  ints_of a = Ok la -> ints_of b = Ok lb -> ints_of (a ++ 44%N :: b) = Ok (la ++ lb).
Proof.
  unfold ints_of. intros Ha Hb. rewrite split_on_app, filter_app, map_app. now apply rseq_app.
Qed.

Lemma ints_of_show n : ints_of (show_N n) = Ok [n].
Proof.
  unfold ints_of. rewrite split_on_none by (now apply show_N_lacks).
  pose proof (show_N_nonempty n) as NE. simpl. destruct (show_N n) eqn:E; [now elim NE|].
  simpl. rewrite <- E. now rewrite py_int_show_N.
Qed.

Lemma join_comma_cons a b r :
  join [44%N] (show_N a :: show_N b :: r) = show_N a ++ 44%N :: join [44%N] (show_N b :: r).
Proof. reflexivity. Qed.

Lemma ints_of_join c : ints_of (join [44%N] (map show_N c)) = Ok c.
Proof.
  induction c as [|a c IH]; [reflexivity|].
  destruct c as [|b c]; [apply ints_of_show|].
  simpl map in *. rewrite join_comma_cons.
  apply (ints_of_app_comma _ _ [a] (b :: c)); [apply ints_of_show|exact IH].
Qed.

Lemma runs_join c : forallb is_run (join [44%N] (map show_N c)) = true.
Proof.
  induction c as [|a c IH]; [reflexivity|].
  destruct c as [|b c]; [apply show_N_runs|].
  simpl map in *. rewrite join_comma_cons. rewrite forallb_app. rewrite show_N_runs. simpl.
  exact IH.
Qed.

(* ================================================================================================ *)
(* A.2 categories of one token                                                                      *)
(* ================================================================================================ *)
Definition single (a : N) : list N := [a].

Lemma cats_of_token_bare s l :
  forallb is_run s = true -> ints_of s = Ok l -> cats_of_token s = Ok (map single l).
Proof.
  intros R H. unfold cats_of_token. destruct s as [|c s'].
  - simpl. rewrite ints_of_nil in H. injection H as <-. reflexivity.
  - simpl in R. apply andb_true_iff in R as [Rc _]. pose proof (run_not_open c Rc) as NO.
    assert (E1 : teqb (c :: s') (lit "{}") = false) by (simpl; now rewrite NO).
    assert (E2 : startswith (lit "{") (c :: s') = false).
    { change (startswith (lit "{") (c :: s')) with (N.eqb 123 c && true).
      rewrite N.eqb_sym. now rewrite NO. }
    rewrite E1, E2, H. reflexivity.
Qed.

Lemma cats_of_token_brace inner c :
  forallb is_run inner = true -> ints_of inner = Ok c ->
  cats_of_token (123%N :: inner ++ [125%N]) = Ok [c].
Proof.
  intros R H. unfold cats_of_token. destruct inner as [|x inner'].
  - rewrite ints_of_nil in H. injection H as <-. reflexivity.
  - simpl in R. apply andb_true_iff in R as [Rx _].
    assert (E1 : teqb (123%N :: (x :: inner') ++ [125%N]) (lit "{}") = false).
    { simpl. now rewrite (run_not_close x Rx). }
    rewrite E1.
    assert (E2 : startswith (lit "{") (123%N :: (x :: inner') ++ [125%N]) = true) by reflexivity.
    rewrite E2. change (drop 1 (123%N :: (x :: inner') ++ [125%N])) with ((x :: inner') ++ [125%N]).
    rewrite removelast_last. now rewrite H.
Qed.

(* ================================================================================================ *)
(* A.3 the state machine on runs and brace groups                                                   *)
(* ================================================================================================ *)
Lemma tok_go_run st d : forall acc r, forallb is_run d = true ->
  tok_go st acc (d ++ r) = tok_go st (rev d ++ acc) r.
Proof.
  induction d as [|c d IH]; intros acc r H; [reflexivity|].
  simpl in H. apply andb_true_iff in H as [Hc Hd]. simpl. rewrite Hc. rewrite IH by exact Hd.
  now rewrite <- app_assoc.
Qed.

Lemma tok_go_open st acc r : tok_go st acc (123%N :: r) = flush acc ++ tok_go true [] r.
Proof. reflexivity. Qed.

Lemma tok_go_close acc r : tok_go true acc (125%N :: r) = (123%N :: rev (125%N :: acc)) :: tok_go false [] r.
Proof. reflexivity. Qed.

Lemma tok_go_brace st acc inner r : forallb is_run inner = true ->
  tok_go st acc (123%N :: inner ++ 125%N :: r) = flush acc ++ (123%N :: inner ++ [125%N]) :: tok_go false [] r.
Proof.
  intros H. rewrite tok_go_open. f_equal. rewrite tok_go_run by exact H. rewrite tok_go_close.
  f_equal. f_equal. simpl. rewrite app_nil_r. now rewrite rev_involutive.
Qed.

Lemma flush_rev acc : acc <> [] -> flush (rev acc) = [acc].
Proof.
  intros NE. destruct (rev acc) as [|x l] eqn:E.
  - exfalso. apply NE. rewrite <- (rev_involutive acc). now rewrite E.
  - unfold flush. rewrite <- E. now rewrite rev_involutive.
Qed.

(* ================================================================================================ *)
(* A.4 token list -> ballot                                                                         *)
(* ================================================================================================ *)
Definition parse_toks (toks : list text) : result ballot :=
  rmap (@List.concat (list N)) (rseq (map cats_of_token toks)).

Lemma parse_pref_toks s : parse_pref s = parse_toks (tokenize s).
Proof. reflexivity. Qed.

Lemma parse_toks_cons t T x X :
  cats_of_token t = Ok x -> parse_toks T = Ok X -> parse_toks (t :: T) = Ok (x ++ X).
Proof.
  unfold parse_toks. simpl. intros -> H. simpl.
  destruct (rseq (map cats_of_token T)) as [Y|e]; simpl in *; [|discriminate].
  injection H as <-. reflexivity.
Qed.

Lemma parse_toks_flush acc l T X :
  forallb is_run acc = true -> ints_of acc = Ok l -> parse_toks T = Ok X ->
  parse_toks (flush (rev acc) ++ T) = Ok (map single l ++ X).
Proof.
  intros R H HT. destruct acc as [|c a].
  - rewrite ints_of_nil in H. injection H as <-. exact HT.
  - rewrite flush_rev by discriminate. simpl app.
    apply parse_toks_cons; [now apply cats_of_token_bare|exact HT].
Qed.

(* ================================================================================================ *)
(* A.5 the printed ballot without spaces, and its tokenization                                      *)
(* ================================================================================================ *)
Definition cat_str_ns (c : list N) : text :=
  match c with
  | [] => [123; 125]%N
  | [a] => show_N a
  | _ => 123%N :: join [44%N] (map show_N c) ++ [125%N]
  end.
(* every category preceded by a comma *)
Definition items (b : ballot) : text := flat_map (fun c => 44%N :: cat_str_ns c) b.

(* [acc] can be continued: whatever follows is a new piece *)
Definition continuable (acc : text) (l : list N) : Prop :=
  forall d ld, ints_of d = Ok ld -> ints_of (acc ++ d) = Ok (l ++ ld).

Lemma continuable_nil : continuable [] [].
Proof. intros d ld H. exact H. Qed.

Lemma continuable_comma acc l : ints_of acc = Ok l -> continuable (acc ++ [44%N]) l.
Proof. intros H d ld Hd. rewrite <- app_assoc. simpl. now apply ints_of_app_comma. Qed.

Lemma continuable_self acc l : continuable acc l -> ints_of acc = Ok l.
Proof. intros H. specialize (H [] [] ints_of_nil). now rewrite !app_nil_r in H. Qed.

Definition tail_ok (R : text) (rest : ballot) : Prop :=
  forall acc l, forallb is_run acc = true -> ints_of acc = Ok l ->
                parse_toks (tok_go false (rev acc) R) = Ok (map single l ++ rest).

Lemma item_step c R acc l rest :
  forallb is_run acc = true -> continuable acc l -> tail_ok R rest ->
  parse_toks (tok_go false (rev acc) (cat_str_ns c ++ R)) = Ok (map single l ++ c :: rest).
Proof.
  intros RA CA HT. pose proof (continuable_self _ _ CA) as IA.
  destruct c as [|a [|a2 c']].
  - (* empty category *)
    change (cat_str_ns [] ++ R) with (123%N :: [] ++ 125%N :: R).
    rewrite tok_go_brace by reflexivity.
    apply parse_toks_flush; [exact RA|exact IA|].
    apply (parse_toks_cons _ _ [[]] rest).
    + apply (cats_of_token_brace [] []); reflexivity.
    + apply (HT [] []); reflexivity.
  - (* singleton *)
    simpl cat_str_ns. rewrite tok_go_run by apply show_N_runs. rewrite <- rev_app_distr.
    rewrite (HT (acc ++ show_N a) (l ++ [a])).
    + rewrite map_app. now rewrite <- app_assoc.
    + rewrite forallb_app, RA. apply show_N_runs.
    + apply CA. apply ints_of_show.
  - (* two or more alternatives *)
    set (c := a :: a2 :: c').
    change (cat_str_ns c) with (123%N :: join [44%N] (map show_N c) ++ [125%N]).
    replace ((123%N :: join [44%N] (map show_N c) ++ [125%N]) ++ R)
      with (123%N :: join [44%N] (map show_N c) ++ 125%N :: R)
      by (change ((123%N :: join [44%N] (map show_N c) ++ [125%N]) ++ R)
            with (123%N :: (join [44%N] (map show_N c) ++ [125%N]) ++ R);
          now rewrite <- app_assoc).
    rewrite tok_go_brace by apply runs_join.
    apply parse_toks_flush; [exact RA|exact IA|].
    apply (parse_toks_cons _ _ [c] rest).
    + apply cats_of_token_brace; [apply runs_join|apply ints_of_join].
    + apply (HT [] []); reflexivity.
Qed.

Lemma items_tail b : tail_ok (items b) b.
Proof.
  induction b as [|c b IH]; intros acc l RA IA.
  - simpl. rewrite app_nil_r. rewrite <- (app_nil_r (flush (rev acc))). rewrite <- (app_nil_r (map single l)).
    apply parse_toks_flush; [exact RA|exact IA|reflexivity].
  - change (items (c :: b)) with (44%N :: cat_str_ns c ++ items b).
    change (tok_go false (rev acc) (44%N :: cat_str_ns c ++ items b))
      with (tok_go false (44%N :: rev acc) (cat_str_ns c ++ items b)).
    change (44%N :: rev acc) with ([44%N] ++ rev acc).
    replace ([44%N] ++ rev acc) with (rev (acc ++ [44%N])) by (now rewrite rev_app_distr).
    apply item_step.
    + rewrite forallb_app, RA. reflexivity.
    + now apply continuable_comma.
    + exact IH.
Qed.

(* the tokenizer and the category construction invert the space-free ballot text *)
Lemma parse_pref_ns c b : parse_pref (cat_str_ns c ++ items b) = Ok (c :: b).
Proof.
  rewrite parse_pref_toks. unfold tokenize. change (@nil N) with (rev (@nil N)) at 1.
  apply (item_step c (items b) [] [] b); [reflexivity|apply continuable_nil|apply items_tail].
Qed.

(* ================================================================================================ *)
(* A.6 pref_str, strip(", ") and replace(" ", "")                                                   *)
(* ================================================================================================ *)
Lemma flat_map_shift {A} (g : A -> text) (s : text) b : forall c,
  flat_map (fun x => g x ++ s) (c :: b) = (g c ++ flat_map (fun x => s ++ g x) b) ++ s.
Proof.
  induction b as [|c2 b IH]; intros c.
  - simpl. now rewrite !app_nil_r.
  - change (flat_map (fun x => g x ++ s) (c :: c2 :: b))
      with ((g c ++ s) ++ flat_map (fun x => g x ++ s) (c2 :: b)).
    rewrite IH. simpl. now rewrite <- !app_assoc.
Qed.

(* the assembled text of a non-empty ballot before the trailing ", " *)
Definition body (c : list N) (b : ballot) : text :=
  cat_str c ++ flat_map (fun x => lit ", " ++ cat_str x) b.

Lemma pref_str_body c b : pref_str (c :: b) = body c b ++ lit ", ".
Proof. unfold pref_str, body. apply flat_map_shift. Qed.

Definition starts_good (t : text) : Prop :=
  exists z t1, t = z :: t1 /\ (is_digit z || (z =? 123)%N) = true.
Definition ends_good (t : text) : Prop :=
  exists t0 z, t = t0 ++ [z] /\ (is_digit z || (z =? 125)%N) = true.

Lemma ends_good_app x t : ends_good t -> ends_good (x ++ t).
Proof. intros [t0 [z [-> Hz]]]. exists (x ++ t0), z. now rewrite app_assoc. Qed.
Lemma starts_good_app t x : starts_good t -> starts_good (t ++ x).
Proof. intros [z [t1 [-> Hz]]]. now exists z, (t1 ++ x). Qed.

Lemma show_N_starts n : starts_good (show_N n).
Proof.
  pose proof (show_N_nonempty n) as NE. pose proof (show_N_digits n) as D.
  destruct (show_N n) as [|z t]; [now elim NE|]. simpl in D. apply andb_true_iff in D as [Dz _].
  exists z, t. now rewrite Dz.
Qed.
Lemma show_N_ends n : ends_good (show_N n).
Proof.
  pose proof (show_N_nonempty n) as NE. pose proof (show_N_digits n) as D.
  destruct (exists_last NE) as [t0 [z E]]. rewrite E in D. rewrite forallb_app in D.
  apply andb_true_iff in D as [_ Dz]. simpl in Dz. rewrite andb_true_r in Dz.
  exists t0, z. now rewrite Dz.
Qed.

Lemma cat_str_starts c : starts_good (cat_str c).
Proof.
  destruct c as [|a [|a2 c]].
  - now exists 123%N, [125%N].
  - apply show_N_starts.
  - eexists 123%N, _. split; [reflexivity|reflexivity].
Qed.
Lemma cat_str_ends c : ends_good (cat_str c).
Proof.
  destruct c as [|a [|a2 c]].
  - now exists [123%N], 125%N.
  - apply show_N_ends.
  - unfold cat_str. rewrite app_assoc. eexists _, 125%N. split; reflexivity.
Qed.

Lemma body_starts c b : starts_good (body c b).
Proof. apply starts_good_app, cat_str_starts. Qed.
Lemma body_cons c c2 b : body c (c2 :: b) = cat_str c ++ lit ", " ++ body c2 b.
Proof. unfold body. cbn [flat_map]. now rewrite <- app_assoc. Qed.
Lemma body_ends b : forall c, ends_good (body c b).
Proof.
  induction b as [|c2 b IH]; intros c.
  - unfold body. simpl. rewrite app_nil_r. apply cat_str_ends.
  - rewrite body_cons. apply ends_good_app, ends_good_app. apply (IH c2).
Qed.

Lemma strip_by_keep f t w :
  (exists z t1, t = z :: t1 /\ f z = false) -> (exists t0 z, t = t0 ++ [z] /\ f z = false) ->
  forallb f w = true -> strip_by f (t ++ w) = t.
Proof.
  intros [z [t1 [E1 Hz]]] [t0 [z' [E2 Hz']]] Hw. unfold strip_by.
  assert (L : lstrip_by f (t ++ w) = t ++ w) by (rewrite E1; simpl; now rewrite Hz).
  rewrite L. rewrite rstrip_by_all by exact Hw.
  rewrite E2. unfold rstrip_by. rewrite rev_app_distr. simpl. rewrite Hz'.
  simpl. now rewrite rev_involutive.
Qed.

Definition cs (c : N) : bool := existsb (N.eqb c) (lit ", ").

Lemma good_start_not_cs z : (is_digit z || (z =? 123)%N) = true -> cs z = false.
Proof.
  intros H. unfold cs. simpl. rewrite orb_false_r. apply orb_false_iff. split; apply N.eqb_neq; intros ->; discriminate.
Qed.
Lemma good_end_not_cs z : (is_digit z || (z =? 125)%N) = true -> cs z = false.
Proof.
  intros H. unfold cs. simpl. rewrite orb_false_r. apply orb_false_iff. split; apply N.eqb_neq; intros ->; discriminate.
Qed.
Lemma good_start_not_space z : (is_digit z || (z =? 123)%N) = true -> is_space z = false.
Proof.
  intros H. apply orb_true_iff in H as [H|H].
  - apply digit_not_space in H. exact H.
  - apply N.eqb_eq in H. now subst.
Qed.
Lemma good_end_not_space z : (is_digit z || (z =? 125)%N) = true -> is_space z = false.
Proof.
  intros H. apply orb_true_iff in H as [H|H].
  - apply digit_not_space in H. exact H.
  - apply N.eqb_eq in H. now subst.
Qed.

(* pref_str.strip(", ") removes exactly the trailing separator *)
Lemma strip_pref_str c b : strip_chars (lit ", ") (pref_str (c :: b)) = body c b.
Proof.
  rewrite pref_str_body. unfold strip_chars. apply (strip_by_keep cs).
  - destruct (body_starts c b) as [z [t1 [E H]]]. exists z, t1. split; [exact E|now apply good_start_not_cs].
  - destruct (body_ends b c) as [t0 [z [E H]]]. exists t0, z. split; [exact E|now apply good_end_not_cs].
  - reflexivity.
Qed.

Lemma remove_sp_app a b : remove_sp (a ++ b) = remove_sp a ++ remove_sp b.
Proof. apply filter_app. Qed.

Lemma remove_sp_id s : lacks 32 s = true -> remove_sp s = s.
Proof.
  unfold remove_sp, lacks. induction s as [|c r IH]; simpl; [reflexivity|]. intros H.
  apply andb_true_iff in H as [Hc Hr]. rewrite Hc. now rewrite IH.
Qed.

Lemma remove_sp_show n : remove_sp (show_N n) = show_N n.
Proof. apply remove_sp_id. now apply show_N_lacks. Qed.

Lemma remove_sp_join c : remove_sp (join (lit ", ") (map show_N c)) = join [44%N] (map show_N c).
Proof.
  induction c as [|a c IH]; [reflexivity|]. destruct c as [|b c]; [apply remove_sp_show|].
  simpl map in *. rewrite join_comma_cons.
  change (join (lit ", ") (show_N a :: show_N b :: map show_N c))
    with (show_N a ++ lit ", " ++ join (lit ", ") (show_N b :: map show_N c)).
  rewrite !remove_sp_app. rewrite remove_sp_show, IH. reflexivity.
Qed.

Lemma remove_sp_cat_str c : remove_sp (cat_str c) = cat_str_ns c.
Proof.
  destruct c as [|a [|a2 c]]; [reflexivity|apply remove_sp_show|].
  unfold cat_str, cat_str_ns. rewrite !remove_sp_app. rewrite remove_sp_join. reflexivity.
Qed.

Lemma remove_sp_body c b : remove_sp (body c b) = cat_str_ns c ++ items b.
Proof.
  unfold body. rewrite remove_sp_app, remove_sp_cat_str. f_equal.
  induction b as [|c2 b IH]; [reflexivity|]. cbn [flat_map]. rewrite !remove_sp_app.
  rewrite remove_sp_cat_str, IH. reflexivity.
Qed.

(* C08_ties: for every ballot — any number of categories, each empty, singleton or larger, in any
   position — tokenizer + category construction read back what the printer (with its strip(", ")) wrote *)
Theorem ties_inverse b : parse_pref (remove_sp (strip_chars (lit ", ") (pref_str b))) = Ok b.
Proof.
  destruct b as [|c b]; [reflexivity|].
  rewrite strip_pref_str, remove_sp_body. apply parse_pref_ns.
Qed.

(* the stripped text of a non-empty ballot starts with a digit or "{" and ends with a digit or "}":
   strip(", ") cannot eat into it *)
Theorem stripped_ends c b :
  starts_good (strip_chars (lit ", ") (pref_str (c :: b))) /\ ends_good (strip_chars (lit ", ") (pref_str (c :: b))).
Proof. rewrite strip_pref_str. split; [apply body_starts|apply body_ends]. Qed.

(* ================================================================================================ *)
(* B. one ballot line                                                                               *)
(* ================================================================================================ *)
Definition bchar (c : N) : bool := is_run c || (c =? 123)%N || (c =? 125)%N.

Lemma runs_bchars s : forallb is_run s = true -> forallb bchar s = true.
Proof. apply forallb_impl. intros c H. unfold bchar. now rewrite H. Qed.

Lemma cat_str_ns_bchars c : forallb bchar (cat_str_ns c) = true.
Proof.
  destruct c as [|a [|a2 c]]; [reflexivity|apply runs_bchars, show_N_runs|].
  set (c' := a :: a2 :: c).
  change (cat_str_ns c') with ([123%N] ++ join [44%N] (map show_N c') ++ [125%N]).
  rewrite !forallb_app. rewrite (runs_bchars _ (runs_join c')). reflexivity.
Qed.

Lemma items_bchars b : forallb bchar (items b) = true.
Proof.
  induction b as [|c b IH]; [reflexivity|].
  change (items (c :: b)) with ([44%N] ++ cat_str_ns c ++ items b).
  rewrite !forallb_app, cat_str_ns_bchars, IH. reflexivity.
Qed.

Lemma bchars_lack_colon s : forallb bchar s = true -> lacks 58 s = true.
Proof.
  apply forallb_impl. intros c H. apply negb_true_iff. apply N.eqb_neq. intros ->. discriminate.
Qed.

Lemma strip_fix_good t : starts_good t -> ends_good t -> strip t = t.
Proof.
  intros [z [t1 [E1 H1]]] [t0 [z' [E2 H2]]]. unfold strip.
  rewrite <- (app_nil_r t) at 1. apply strip_by_keep.
  - exists z, t1. split; [exact E1|now apply good_start_not_space].
  - exists t0, z'. split; [exact E2|now apply good_end_not_space].
  - reflexivity.
Qed.

Lemma ballot_line_read mu c b :
  ballot_of_line (ballot_line mu (c :: b)) = Ok (mult_of mu (c :: b), c :: b).
Proof.
  unfold ballot_of_line, ballot_line. rewrite strip_pref_str.
  set (m := mult_of mu (c :: b)).
  replace (show_N m ++ lit ": " ++ body c b ++ nl) with ((show_N m ++ lit ": " ++ body c b) ++ nl)
    by (now rewrite <- !app_assoc).
  rewrite strip_nl_r by reflexivity.
  rewrite strip_fix_good.
  2:{ apply starts_good_app. destruct (show_N_starts m) as [z [t1 [E H]]]. exists z, t1. split; [exact E|].
      apply orb_true_iff in H as [H|H]; [now rewrite H|].
      exfalso. apply N.eqb_eq in H. subst z. pose proof (show_N_digits m) as D. rewrite E in D. discriminate. }
  2:{ apply ends_good_app, ends_good_app, body_ends. }
  rewrite !remove_sp_app, remove_sp_show, remove_sp_body.
  change (remove_sp (lit ": ")) with [58%N]. simpl app at 2.
  rewrite split_on_app.
  rewrite (split_on_none 58 (show_N m)) by (now apply show_N_lacks).
  rewrite (split_on_none 58 (cat_str_ns c ++ items b)).
  2:{ apply bchars_lack_colon. rewrite forallb_app, cat_str_ns_bchars. apply items_bchars. }
  simpl app. cbv iota beta. rewrite py_int_show_N. simpl rbind. now rewrite parse_pref_ns.
Qed.

(* ================================================================================================ *)
(* C. the stable sort                                                                               *)
(* ================================================================================================ *)
Section Sort.
Context {A : Type} (lt : A -> A -> bool).
(* x may stand before y *)
Definition le_of (x y : A) : Prop := lt y x = false.
Hypothesis asym : forall x y, lt y x = true -> lt x y = false.
Hypothesis trans : forall x y z, le_of x y -> le_of y z -> le_of x z.

Lemma insert_by_perm x l : Permutation (x :: l) (insert_by lt x l).
Proof.
  induction l as [|y r IH]; simpl; [apply Permutation_refl|].
  destruct (lt y x); [|apply Permutation_refl].
  eapply Permutation_trans; [apply perm_swap|]. now apply perm_skip.
Qed.

Lemma stable_sort_perm l : Permutation l (stable_sort lt l).
Proof.
  induction l as [|x r IH]; simpl; [constructor|].
  eapply Permutation_trans; [apply perm_skip, IH|]. apply insert_by_perm.
Qed.

Lemma insert_by_sorted x l : StronglySorted le_of l -> StronglySorted le_of (insert_by lt x l).
Proof.
  induction l as [|y r IH]; intros S; simpl.
  - constructor; constructor.
  - inversion S as [|? ? Sr Fy]; subst. destruct (lt y x) eqn:E.
    + constructor; [now apply IH|].
      apply (Permutation_Forall (insert_by_perm x r)). constructor; [|exact Fy].
      unfold le_of. now apply asym.
    + constructor; [exact S|]. constructor; [exact E|].
      eapply Forall_impl; [|exact Fy]. intros z Hz. now apply (trans x y z).
Qed.

Lemma stable_sort_sorted l : StronglySorted le_of (stable_sort lt l).
Proof. induction l as [|x r IH]; simpl; [constructor|now apply insert_by_sorted]. Qed.
End Sort.

(* sorting a sorted list changes nothing (no hypothesis on the comparison needed) *)
Lemma stable_sort_id {A} (lt : A -> A -> bool) l : StronglySorted (le_of lt) l -> stable_sort lt l = l.
Proof.
  induction l as [|x r IH]; intros S; [reflexivity|]. inversion S as [|? ? Sr Fx]; subst.
  simpl. rewrite (IH Sr). destruct r as [|y r']; [reflexivity|]. simpl.
  inversion Fx as [|? ? Hy _]; subst. unfold le_of in Hy. now rewrite Hy.
Qed.

Lemma StronglySorted_ext_in {A} (R R' : A -> A -> Prop) l :
  (forall x y, In x l -> In y l -> R x y -> R' x y) -> StronglySorted R l -> StronglySorted R' l.
Proof.
  induction l as [|x r IH]; intros H S; [constructor|]. inversion S as [|? ? Sr Fx]; subst.
  constructor.
  - apply IH; [|exact Sr]. intros a b Ha Hb. apply H; now right.
  - rewrite Forall_forall in *. intros y Hy. apply H; [now left|now right|now apply Fx].
Qed.

(* ---- the key of write's sort ---- *)
Lemma key_lt_spec mu y x :
  key_lt mu y x = true <->
  (mult_of mu x < mult_of mu y)%N \/ (mult_of mu y = mult_of mu x /\ List.length x < List.length y).
Proof.
  unfold key_lt. rewrite orb_true_iff, andb_true_iff, N.ltb_lt, N.eqb_eq, Nat.ltb_lt. reflexivity.
Qed.

Lemma key_lt_false mu y x :
  key_lt mu y x = false <->
  (mult_of mu y < mult_of mu x)%N \/ (mult_of mu y = mult_of mu x /\ List.length y <= List.length x).
Proof.
  rewrite <- not_true_iff_false, key_lt_spec. lia.
Qed.

Lemma key_lt_asym mu x y : key_lt mu y x = true -> key_lt mu x y = false.
Proof. rewrite key_lt_spec, key_lt_false. lia. Qed.

Lemma key_le_trans mu x y z : le_of (key_lt mu) x y -> le_of (key_lt mu) y z -> le_of (key_lt mu) x z.
Proof. unfold le_of. rewrite !key_lt_false. lia. Qed.

Lemma sorted_prefs_sorted i : StronglySorted (le_of (key_lt (c_mult i))) (sorted_prefs i).
Proof. apply stable_sort_sorted; [apply key_lt_asym|apply key_le_trans]. Qed.

Lemma sorted_prefs_perm i : Permutation (c_prefs i) (sorted_prefs i).
Proof. apply stable_sort_perm. Qed.

(* multiplicities are non-increasing along the written ballot list *)
Definition mult_non_increasing (mu : list (ballot * N)) (l : list ballot) : Prop :=
  StronglySorted (fun x y => (mult_of mu y <= mult_of mu x)%N) l.

Lemma sorted_prefs_non_increasing i : mult_non_increasing (c_mult i) (sorted_prefs i).
Proof.
  eapply StronglySorted_ext_in; [|apply sorted_prefs_sorted].
  intros x y _ _. unfold le_of. rewrite key_lt_false. lia.
Qed.

(* ---- equality tests ---- *)
Lemma list_eqb_eq {A} (eqb : A -> A -> bool) :
  (forall x y, eqb x y = true <-> x = y) -> forall a b, list_eqb eqb a b = true <-> a = b.
Proof.
  intros H. induction a as [|x a IH]; intros [|y b]; simpl; split; intros E; try easy.
  - apply andb_true_iff in E as [E1 E2]. apply H in E1. apply IH in E2. now subst.
  - injection E as -> ->. apply andb_true_iff. split; [now apply H|now apply IH].
Qed.
Lemma cat_eqb_eq a b : cat_eqb a b = true <-> a = b.
Proof. apply list_eqb_eq. intros x y. apply N.eqb_eq. Qed.
Lemma ballot_eqb_eq a b : ballot_eqb a b = true <-> a = b.
Proof. apply list_eqb_eq. apply cat_eqb_eq. Qed.
Lemma ballot_eqb_refl a : ballot_eqb a a = true.
Proof. now apply ballot_eqb_eq. Qed.
Lemma ballot_eqb_neq a b : a <> b -> ballot_eqb a b = false.
Proof. intros H. destruct (ballot_eqb a b) eqn:E; [|reflexivity]. apply ballot_eqb_eq in E. contradiction. Qed.

(* ---- the table of sorted_view ---- *)
Definition retable (mu : list (ballot * N)) (l : list ballot) : list (ballot * N) :=
  map (fun b => (b, mult_of mu b)) l.

Lemma mult_of_retable mu l b : In b l -> mult_of (retable mu l) b = mult_of mu b.
Proof.
  unfold mult_of at 1. induction l as [|s l IH]; intros H; [easy|]. simpl.
  destruct (ballot_eqb b s) eqn:E.
  - apply ballot_eqb_eq in E. now subst.
  - destruct H as [->|H]; [now rewrite ballot_eqb_refl in E|now apply IH].
Qed.

Lemma key_lt_retable mu l x y : In x l -> In y l -> key_lt (retable mu l) y x = key_lt mu y x.
Proof. intros Hx Hy. unfold key_lt. now rewrite !mult_of_retable. Qed.

Lemma flat_map_ext_in {A B} (f g : A -> list B) l :
  (forall x, In x l -> f x = g x) -> flat_map f l = flat_map g l.
Proof.
  induction l as [|x r IH]; intros H; [reflexivity|]. simpl. rewrite (H x) by now left.
  rewrite IH; [reflexivity|]. intros y Hy. apply H. now right.
Qed.

Lemma sorted_view_sorted_prefs i : sorted_prefs (sorted_view i) = sorted_prefs i.
Proof.
  unfold sorted_prefs at 1.
  change (c_prefs (sorted_view i)) with (sorted_prefs i).
  change (c_mult (sorted_view i)) with (retable (c_mult i) (sorted_prefs i)).
  apply stable_sort_id.
  eapply StronglySorted_ext_in; [|apply sorted_prefs_sorted].
  intros x y Hx Hy. unfold le_of. now rewrite key_lt_retable.
Qed.

(* writing the sorted view reproduces the file *)
Lemma sorted_view_meta i : c_meta (sorted_view i) = c_meta i.  Proof. reflexivity. Qed.
Lemma sorted_view_counts i : write_counts (sorted_view i) = write_counts i.  Proof. reflexivity. Qed.
Lemma sorted_view_cat_names i : c_cat_names (sorted_view i) = c_cat_names i.  Proof. reflexivity. Qed.
Lemma sorted_view_mult i : c_mult (sorted_view i) = retable (c_mult i) (sorted_prefs i).  Proof. reflexivity. Qed.
Lemma sorted_view_prefs i : c_prefs (sorted_view i) = sorted_prefs i.  Proof. reflexivity. Qed.

Theorem write_sorted_view i : cat_write (sorted_view i) = cat_write i.
Proof.
  unfold cat_write. rewrite sorted_view_sorted_prefs, sorted_view_meta, sorted_view_counts,
    sorted_view_cat_names, sorted_view_mult.
  do 4 f_equal.
  apply flat_map_ext_in. intros b Hb. unfold ballot_line. now rewrite mult_of_retable.
Qed.

(* ================================================================================================ *)
(* D.1 the written file as a list of lines                                                          *)
(* ================================================================================================ *)
Definition count_lines (i : cinst) : list text :=
  [ lit "# NUMBER ALTERNATIVES:" ++ 32%N :: show_N (num_alternatives (c_meta i));
    lit "# NUMBER VOTERS:" ++ 32%N :: show_N (num_voters (c_meta i));
    lit "# NUMBER UNIQUE PREFERENCES:" ++ 32%N :: show_N (c_num_unique i);
    lit "# NUMBER CATEGORIES:" ++ 32%N :: show_N (c_num_categories i) ].
Definition cat_name_lines (d : list (N * text)) : list text :=
  map (fun p => name_line cat_name_prefix (fst p) (snd p)) d.
Definition ballot_text (mu : list (ballot * N)) (b : ballot) : text :=
  show_N (mult_of mu b) ++ lit ": " ++ strip_chars (lit ", ") (pref_str b).

Lemma unlines_app a b : unlines (a ++ b) = unlines a ++ unlines b.
Proof. apply flat_map_app. Qed.

Lemma write_counts_lines i : write_counts i = unlines (count_lines i).
Proof.
  unfold write_counts, unlines, count_lines. cbn [flat_map lit].
  repeat (rewrite <- ?app_assoc; cbn [app]). reflexivity.
Qed.

Lemma write_cat_names_lines d : write_cat_names d = unlines (cat_name_lines d).
Proof.
  unfold write_cat_names, unlines, cat_name_lines. induction d as [|[a nm] r IH]; [reflexivity|].
  cbn [flat_map map fst snd]. rewrite IH. f_equal.
  unfold name_line, name_key, cat_name_prefix. cbn [lit]. repeat (rewrite <- ?app_assoc; cbn [app]). reflexivity.
Qed.

Lemma ballot_line_text mu b : ballot_line mu b = ballot_text mu b ++ nl.
Proof. unfold ballot_line, ballot_text. now rewrite <- !app_assoc. Qed.

Lemma write_ballots_lines mu l : flat_map (ballot_line mu) l = unlines (map (ballot_text mu) l).
Proof.
  unfold unlines. induction l as [|b r IH]; [reflexivity|]. cbn [flat_map map].
  now rewrite IH, ballot_line_text.
Qed.

Definition header_lines (i : cinst) : list text :=
  meta_lines (c_meta i) ++ count_lines i ++ cat_name_lines (c_cat_names i) ++
  alt_name_lines (alt_names (c_meta i)).

Lemma cat_write_lines i :
  cat_write i = unlines (header_lines i ++ map (ballot_text (c_mult i)) (sorted_prefs i)).
Proof.
  unfold cat_write, header_lines. rewrite !unlines_app.
  rewrite write_metadata_lines, write_counts_lines, write_cat_names_lines, write_alt_names_lines,
    write_ballots_lines. now rewrite <- !app_assoc.
Qed.

(* ---- no line contains a line boundary ---- *)
Definition printable (c : N) : bool := (32 <=? c)%N && (c <=? 125)%N.

Lemma printable_no_break s : forallb printable s = true -> no_break s = true.
Proof.
  apply forallb_impl. intros c H. unfold printable in H. apply andb_true_iff in H as [A B].
  apply N.leb_le in A. apply N.leb_le in B. unfold is_linebreak.
  repeat match goal with
    | |- context [(?a <=? c)%N] => destruct (N.leb_spec a c); try lia
    | |- context [(c <=? ?a)%N] => destruct (N.leb_spec c a); try lia
    | |- context [(c =? ?a)%N] => destruct (N.eqb_spec c a); try lia
    end; reflexivity.
Qed.

Lemma digit_printable c : is_digit c = true -> printable c = true.
Proof.
  unfold is_digit, printable. intros H. apply andb_true_iff in H as [A B].
  apply N.leb_le in A. apply N.leb_le in B. apply andb_true_iff. split; apply N.leb_le; lia.
Qed.

Lemma show_N_printable n : forallb printable (show_N n) = true.
Proof. eapply forallb_impl; [apply digit_printable|apply show_N_digits]. Qed.

Lemma show_N_no_break n : no_break (show_N n) = true.
Proof. apply printable_no_break, show_N_printable. Qed.

Lemma no_break_app a b : no_break (a ++ b) = no_break a && no_break b.
Proof. apply forallb_app. Qed.

Lemma bchar_printable c : bchar c = true -> printable c = true.
Proof.
  unfold bchar, is_run. intros H. repeat (apply orb_true_iff in H as [H|H]).
  - now apply digit_printable.
  - apply N.eqb_eq in H. now subst.
  - apply N.eqb_eq in H. now subst.
  - apply N.eqb_eq in H. now subst.
Qed.

Lemma remove_sp_forallb (P : N -> bool) s :
  forallb P (remove_sp s) = true -> forallb (fun c => P c || (c =? 32)%N) s = true.
Proof.
  unfold remove_sp. induction s as [|c r IH]; [reflexivity|]. simpl.
  destruct (N.eqb_spec c 32) as [->|Hne]; simpl.
  - intros H. rewrite orb_true_r. simpl. now apply IH.
  - intros H. apply andb_true_iff in H as [Hc Hr]. rewrite Hc. simpl. now apply IH.
Qed.

Lemma body_printable c b : forallb printable (body c b) = true.
Proof.
  assert (H : forallb bchar (remove_sp (body c b)) = true).
  { rewrite remove_sp_body, forallb_app, cat_str_ns_bchars. apply items_bchars. }
  apply remove_sp_forallb in H. revert H. apply forallb_impl. intros x Hx.
  apply orb_true_iff in Hx as [Hx|Hx]; [now apply bchar_printable|].
  apply N.eqb_eq in Hx. now subst.
Qed.

Lemma ballot_text_no_break mu c b : no_break (ballot_text mu (c :: b)) = true.
Proof.
  unfold ballot_text. rewrite strip_pref_str. apply printable_no_break.
  rewrite !forallb_app. rewrite show_N_printable, body_printable. reflexivity.
Qed.

Lemma count_line_no_break K n : forallb printable K = true -> no_break (K ++ 32%N :: show_N n) = true.
Proof.
  intros H. apply printable_no_break. rewrite forallb_app, H. cbn [forallb andb].
  rewrite show_N_printable. reflexivity.
Qed.

Lemma count_lines_no_break i : forallb no_break (count_lines i) = true.
Proof.
  unfold count_lines. cbn [forallb]. rewrite !count_line_no_break by reflexivity. reflexivity.
Qed.

Lemma name_lines_no_break prefix d :
  no_break prefix = true -> Forall (fun p => wf_field (snd p)) d ->
  forallb no_break (map (fun p => name_line prefix (fst p) (snd p)) d) = true.
Proof.
  intros Hp. induction 1 as [|[a nm] r [Hv Hb] Hr IH]; [reflexivity|].
  cbn [map forallb fst snd]. rewrite IH, andb_true_r.
  unfold name_line, name_key. rewrite !no_break_app. rewrite Hp, show_N_no_break.
  cbn [snd] in Hb. unfold no_break in *. cbn [forallb]. now rewrite Hb.
Qed.

(* ================================================================================================ *)
(* D.2 the header loop                                                                              *)
(* ================================================================================================ *)
Definition fold_header (au : bool) (rc : list text) (r : result cinst) (ls : list text) : result cinst :=
  fold_left (fun r l => rbind r (fun i => header_line au rc i (strip l))) ls r.

Lemma fold_header_err au rc e ls : fold_header au rc (Err e) ls = Err e.
Proof. induction ls as [|l r IH]; [reflexivity|]. exact IH. Qed.

Lemma fold_header_app au rc r a b :
  fold_header au rc r (a ++ b) = fold_header au rc (fold_header au rc r a) b.
Proof. apply fold_left_app. Qed.

Lemma fold_header_ws au rc w ls : forallb is_space w = true -> forall r,
  fold_header au rc r (map (fun l => l ++ w) ls) = fold_header au rc r ls.
Proof.
  intros Hw. unfold fold_header. induction ls as [|l t IH]; intros r; [reflexivity|].
  cbn [map fold_left]. rewrite IH. rewrite strip_nl_r by exact Hw. reflexivity.
Qed.

Lemma lstrip_by_snoc f a z : f z = false -> lstrip_by f (a ++ [z]) = lstrip_by f a ++ [z].
Proof. intros Hz. induction a as [|c a IH]; simpl; [now rewrite Hz|]. destruct (f c); [exact IH|reflexivity]. Qed.

Lemma strip_hash r : startswith hash_prefix (strip (35%N :: r)) = true.
Proof.
  unfold strip, strip_by. rewrite lstrip_by_cons_false by reflexivity.
  unfold rstrip_by. simpl rev. rewrite lstrip_by_snoc by reflexivity. rewrite rev_app_distr. reflexivity.
Qed.

Definition hash_line (l : text) : Prop := exists r, l = 35%N :: r.

Lemma header_loop_app au rc hs : forall i i' rest, rest <> [] -> Forall hash_line hs ->
  fold_header au rc (Ok i) hs = Ok i' ->
  header_loop au rc i (hs ++ rest) = header_loop au rc i' rest.
Proof.
  induction hs as [|h hs IH]; intros i i' rest NE F H.
  - injection H as <-. reflexivity.
  - inversion F as [|? ? [r ->] F']; subst. cbn [app header_loop]. rewrite strip_hash.
    unfold fold_header in H. cbn [fold_left rbind] in H. fold (fold_header au rc) in H.
    destruct (header_line au rc i (strip (35%N :: r))) as [i1|e].
    + cbn [rbind]. destruct (hs ++ rest) as [|x xs] eqn:E.
      * apply app_eq_nil in E as [_ E]. contradiction.
      * rewrite <- E. now apply IH.
    + unfold fold_header in H. fold (fold_header au rc (Err e) hs) in H. rewrite fold_header_err in H. discriminate.
Qed.

Lemma header_loop_stop au rc i l rest :
  startswith hash_prefix (strip l) = false -> header_loop au rc i (l :: rest) = Ok (i, l :: rest).
Proof. intros H. cbn [header_loop]. now rewrite H. Qed.

(* ---- prefix tests on a literal key followed by anything ---- *)
Fixpoint differ (p k : text) : bool :=
  match p, k with
  | a :: p', b :: k' => if N.eqb a b then differ p' k' else true
  | _, _ => false
  end.

Lemma sw_false p : forall k x, differ p k = true -> startswith p (k ++ x) = false.
Proof.
  induction p as [|a p IH]; intros [|b k] x H; try discriminate. simpl in *.
  destruct (N.eqb a b); [now apply IH|reflexivity].
Qed.

Lemma sw_true p : forall k x, startswith p k = true -> startswith p (k ++ x) = true.
Proof.
  induction p as [|a p IH]; intros [|b k] x H; try reflexivity; try discriminate. simpl in *.
  apply andb_true_iff in H as [H1 H2]. rewrite H1. now apply IH.
Qed.

Definition P_uniq : text := lit "# NUMBER UNIQUE PREFERENCES".
Definition P_ncat : text := lit "# NUMBER CATEGORIES".
Definition P_cname : text := lit "# CATEGORY NAME".

Definition not_cat_line (line : text) : Prop :=
  startswith P_uniq line = false /\ startswith P_ncat line = false /\ startswith P_cname line = false.

Lemma not_cat_line_key K x :
  differ P_uniq K = true -> differ P_ncat K = true -> differ P_cname K = true -> not_cat_line (K ++ x).
Proof. intros A B C. repeat split; now apply sw_false. Qed.

Lemma header_line_meta au rc i line :
  not_cat_line line -> header_line au rc i line = rmap (set_c_meta i) (parse_metadata au (c_meta i) line).
Proof.
  intros (A & B & C). unfold header_line. fold P_uniq P_ncat P_cname. now rewrite A, B, C.
Qed.

(* a run of lines none of which is a categorical header line is handled by parse_metadata alone *)
Lemma fold_header_meta au rc i0 ls : Forall (fun l => not_cat_line (strip l)) ls -> forall rm,
  fold_header au rc (rmap (set_c_meta i0) rm) ls =
  rmap (set_c_meta i0) (fold_left (fun r l => rbind r (fun m => parse_metadata au m (strip l))) ls rm).
Proof.
  induction 1 as [|l ls Hl _ IH]; intros rm; [reflexivity|].
  unfold fold_header. cbn [fold_left]. fold (fold_header au rc).
  replace (rbind (rmap (set_c_meta i0) rm) (fun i => header_line au rc i (strip l)))
    with (rmap (set_c_meta i0) (rbind rm (fun m => parse_metadata au m (strip l)))); [apply IH|].
  destruct rm as [m|e]; [|reflexivity]. cbn [rmap rbind]. rewrite header_line_meta by exact Hl. reflexivity.
Qed.

Lemma set_c_meta_self i : set_c_meta i (c_meta i) = i.
Proof. now destruct i. Qed.

Corollary fold_header_meta_lines au rc i ls : Forall (fun l => not_cat_line (strip l)) ls ->
  fold_header au rc (Ok i) ls = rmap (set_c_meta i) (parse_meta_lines au (c_meta i) ls).
Proof.
  intros H. rewrite <- (set_c_meta_self i) at 1.
  apply (fold_header_meta au rc i ls H (Ok (c_meta i))).
Qed.

(* ---- text values for the FILE path -------------------------------------------------------------------------
   file.readlines() ends a line only at "\n" (and "\r", universal newlines), so a value may contain the other
   eight str.splitlines boundaries (\x0b \x0c \x1c \x1d \x1e \x85 U+2028 U+2029) strictly inside and is still a
   single line of the file.  wf_text_rl is that weaker condition (cf. wf_field_rl of the C09 package);
   wf_field of Proofs/Meta.v additionally excludes those eight characters (needed for parse_str only). *)
Definition wf_text_rl (v : text) : Prop := wf_value v /\ no_nlcr v = true.
Definition wf_fields_rl (m : meta) : Prop :=
  wf_text_rl (file_name m) /\ wf_text_rl (title m) /\ wf_text_rl (description m) /\ wf_text_rl (data_type m) /\
  wf_text_rl (modification_type m) /\ wf_text_rl (relates_to m) /\ wf_text_rl (related_files m) /\
  wf_text_rl (publication_date m) /\ wf_text_rl (modification_date m).
Definition wf_names_rl (d : list (N * text)) : Prop :=
  Forall (fun p => wf_text_rl (snd p)) d /\ NoDup (keys d).

Lemma wf_field_weaken v : wf_field v -> wf_text_rl v.
Proof. intros [A B]. split; [exact A|now apply no_break_no_nlcr]. Qed.
Lemma wf_fields_weaken m : wf_fields m -> wf_fields_rl m.
Proof.
  intros (H1 & H2 & H3 & H4 & H5 & H6 & H7 & H8 & H9).
  repeat split; first [apply H1|apply H2|apply H3|apply H4|apply H5|apply H6|apply H7|apply H8|apply H9
                      |apply no_break_no_nlcr; first [apply H1|apply H2|apply H3|apply H4|apply H5|apply H6|apply H7|apply H8|apply H9]].
Qed.
Lemma wf_names_weaken d : wf_names d -> wf_names_rl d.
Proof.
  intros [F D]. split; [|exact D]. eapply Forall_impl; [|exact F]. intros q H. now apply wf_field_weaken.
Qed.

Lemma no_nlcr_no_nl v : no_nlcr v = true -> forallb (fun c => negb (N.eqb c 10)) v = true.
Proof. unfold no_nlcr. apply forallb_impl. intros c H. now apply andb_true_iff in H as [H _]. Qed.

Theorem metadata_roundtrip_rl au m m' :
  wf_fields_rl m -> parse_meta_lines au m' (meta_lines m) = Ok (copy_fields m m').
Proof.
  intros (H1 & H2 & H3 & H4 & H5 & H6 & H7 & H8 & H9).
  unfold parse_meta_lines, meta_lines. cbn [fold_left rbind].
  rewrite parse_line_file_name by apply H1. cbn [rbind].
  rewrite parse_line_title by apply H2. cbn [rbind].
  rewrite parse_line_description by apply H3. cbn [rbind].
  rewrite parse_line_data_type by apply H4. cbn [rbind].
  rewrite parse_line_modification_type by apply H5. cbn [rbind].
  rewrite parse_line_relates_to by apply H6. cbn [rbind].
  rewrite parse_line_related_files by apply H7. cbn [rbind].
  rewrite parse_line_publication_date by apply H8. cbn [rbind].
  rewrite parse_line_modification_date by apply H9. reflexivity.
Qed.

(* re.match(name pattern, stripped line): the final group stops only at "\n" *)
Lemma match_name_line_nl prefix a nm :
  forallb (fun c => negb (N.eqb c 10)) nm = true ->
  match_name prefix (name_key prefix a ++ spv nm) = Some (a, nm).
Proof.
  intros Hb. unfold match_name, name_key. rewrite <- !app_assoc. rewrite startswith_app.
  unfold drop. rewrite skipn_app_exact. simpl app.
  rewrite span_digits_app; [|apply show_N_digits|reflexivity].
  pose proof (show_N_nonempty a) as Hne. destruct (show_N a) as [|d0 dr] eqn:Ed; [easy|].
  rewrite <- Ed. rewrite read_show_N.
  assert (U : upto_nl nm = nm) by (now apply upto_nl_id).
  destruct nm as [|c r]; [reflexivity|]. unfold spv. now rewrite U.
Qed.

Lemma parse_line_alt_name_rl au m a nm : wf_text_rl nm ->
  parse_metadata au m (strip (name_line alt_name_prefix a nm)) =
  rmap (fun nm' => set_alt_names m (assoc_set N.eqb a nm' (alt_names m)))
       (corrected_name au nm (values (alt_names m)) (reserved m)).
Proof.
  intros [Hv Hb]. rewrite strip_name_line; [|reflexivity|exact Hv].
  pose proof (match_name_line_nl alt_name_prefix a nm (no_nlcr_no_nl _ Hb)) as M.
  unfold parse_metadata. rewrite M. clear M.
  unfold name_key, alt_name_prefix. rewrite <- !app_assoc.
  remember (show_N a ++ [58%N] ++ spv nm) as Y. cbn -[corrected_name]. reflexivity.
Qed.

Theorem alt_names_roundtrip_rl m' d :
  Forall (fun p => wf_text_rl (snd p)) d ->
  parse_meta_lines false m' (alt_name_lines d) = Ok (set_alt_names m' (set_all d (alt_names m'))).
Proof.
  unfold parse_meta_lines. revert m'. induction d as [|[a nm] r IH]; intros m' H.
  - cbn. destruct m'; reflexivity.
  - inversion H as [|? ? Hq Hr]; subst. cbn [alt_name_lines map fold_left rbind fst snd].
    cbn [fst snd] in *. rewrite parse_line_alt_name_rl by assumption.
    unfold corrected_name. cbn [andb rmap].
    fold (alt_name_lines r). rewrite (IH _ Hr). reflexivity.
Qed.

Corollary alt_names_roundtrip_fresh_rl m' d :
  wf_names_rl d -> alt_names m' = [] ->
  parse_meta_lines false m' (alt_name_lines d) = Ok (set_alt_names m' d).
Proof.
  intros [Hf Hn] E. rewrite alt_names_roundtrip_rl by exact Hf. rewrite E.
  rewrite set_all_fresh; [reflexivity|exact Hn].
Qed.

Lemma no_nlcr_app a b : no_nlcr (a ++ b) = no_nlcr a && no_nlcr b.
Proof. apply forallb_app. Qed.

Lemma meta_lines_no_nlcr m : wf_fields_rl m -> forallb no_nlcr (meta_lines m) = true.
Proof.
  intros (H1 & H2 & H3 & H4 & H5 & H6 & H7 & H8 & H9).
  unfold meta_lines. cbn [forallb]. unfold wf_text_rl, no_nlcr in *.
  rewrite !forallb_app. cbn [forallb lit].
  destruct H1 as [_ ->], H2 as [_ ->], H3 as [_ ->], H4 as [_ ->], H5 as [_ ->], H6 as [_ ->],
           H7 as [_ ->], H8 as [_ ->], H9 as [_ ->]. reflexivity.
Qed.

Lemma name_lines_no_nlcr prefix d :
  no_nlcr prefix = true -> Forall (fun p => wf_text_rl (snd p)) d ->
  forallb no_nlcr (map (fun p => name_line prefix (fst p) (snd p)) d) = true.
Proof.
  intros Hp. induction 1 as [|[a nm] r [Hv Hb] Hr IH]; [reflexivity|].
  cbn [map forallb fst snd]. rewrite IH, andb_true_r.
  unfold name_line, name_key. rewrite !no_nlcr_app. rewrite Hp.
  rewrite (no_break_no_nlcr _ (show_N_no_break a)).
  cbn [snd] in Hb. unfold no_nlcr in *. cbn [forallb]. now rewrite Hb.
Qed.

Lemma kv_not_cat K v :
  K <> [] -> strip K = K -> wf_value v ->
  differ P_uniq K = true -> differ P_ncat K = true -> differ P_cname K = true ->
  not_cat_line (strip (K ++ 32%N :: v)).
Proof. intros NE SK Hv A B C. rewrite strip_kv by assumption. now apply not_cat_line_key. Qed.

Lemma meta_lines_not_cat m : wf_fields_rl m -> Forall (fun l => not_cat_line (strip l)) (meta_lines m).
Proof.
  intros (H1 & H2 & H3 & H4 & H5 & H6 & H7 & H8 & H9). unfold meta_lines.
  apply Forall_cons; [apply kv_not_cat; [discriminate|reflexivity|apply H1|reflexivity|reflexivity|reflexivity]|].
  apply Forall_cons; [apply kv_not_cat; [discriminate|reflexivity|apply H2|reflexivity|reflexivity|reflexivity]|].
  apply Forall_cons; [apply kv_not_cat; [discriminate|reflexivity|apply H3|reflexivity|reflexivity|reflexivity]|].
  apply Forall_cons; [apply kv_not_cat; [discriminate|reflexivity|apply H4|reflexivity|reflexivity|reflexivity]|].
  apply Forall_cons; [apply kv_not_cat; [discriminate|reflexivity|apply H5|reflexivity|reflexivity|reflexivity]|].
  apply Forall_cons; [apply kv_not_cat; [discriminate|reflexivity|apply H6|reflexivity|reflexivity|reflexivity]|].
  apply Forall_cons; [apply kv_not_cat; [discriminate|reflexivity|apply H7|reflexivity|reflexivity|reflexivity]|].
  apply Forall_cons; [apply kv_not_cat; [discriminate|reflexivity|apply H8|reflexivity|reflexivity|reflexivity]|].
  apply Forall_cons; [apply kv_not_cat; [discriminate|reflexivity|apply H9|reflexivity|reflexivity|reflexivity]|].
  apply Forall_nil.
Qed.

Lemma name_line_not_cat a nm : wf_value nm -> not_cat_line (strip (name_line alt_name_prefix a nm)).
Proof.
  intros Hv. rewrite strip_name_line; [|reflexivity|exact Hv]. unfold name_key. rewrite <- !app_assoc.
  now apply not_cat_line_key.
Qed.

Lemma alt_name_lines_not_cat d :
  Forall (fun p => wf_text_rl (snd p)) d -> Forall (fun l => not_cat_line (strip l)) (alt_name_lines d).
Proof.
  induction 1 as [|[a nm] r [Hv _] _ IH]; [constructor|]. cbn [alt_name_lines map fst snd].
  constructor; [now apply name_line_not_cat|exact IH].
Qed.

(* ================================================================================================ *)
(* D.3 the categorical header lines                                                                 *)
(* ================================================================================================ *)
(* a "#" line that matches none of parse_metadata's prefixes leaves the metadata alone *)
Lemma parse_metadata_other au m K x :
  differ (lit "# FILE NAME") K = true -> differ (lit "# TITLE") K = true ->
  differ (lit "# DESCRIPTION") K = true -> differ (lit "# DATA TYPE") K = true ->
  differ (lit "# MODIFICATION TYPE") K = true -> differ (lit "# RELATES TO") K = true ->
  differ (lit "# RELATED FILES") K = true -> differ (lit "# PUBLICATION DATE") K = true ->
  differ (lit "# MODIFICATION DATE") K = true -> differ (lit "# NUMBER ALTERNATIVES") K = true ->
  differ (lit "# NUMBER VOTERS") K = true -> differ (lit "# ALTERNATIVE NAME") K = true ->
  parse_metadata au m (K ++ x) = Ok m.
Proof.
  intros. unfold parse_metadata. rewrite !sw_false by assumption. reflexivity.
Qed.

Definition K_uniq : text := lit "# NUMBER UNIQUE PREFERENCES:".
Definition K_ncat : text := lit "# NUMBER CATEGORIES:".

Lemma header_line_num_unique au rc i n :
  header_line au rc i (strip (K_uniq ++ 32%N :: show_N n)) = Ok (set_c_num_unique i n).
Proof.
  rewrite strip_kv; [|discriminate|reflexivity|apply strip_show_N]. rewrite spv_show_N.
  unfold header_line.
  rewrite (sw_true (lit "# NUMBER UNIQUE PREFERENCES") K_uniq) by reflexivity.
  change 28 with (List.length K_uniq). unfold drop. rewrite skipn_app_exact.
  rewrite py_int_sp_show_N. cbn [rmap rbind].
  rewrite (sw_false (lit "# NUMBER CATEGORIES") K_uniq) by reflexivity.
  rewrite (sw_false (lit "# CATEGORY NAME") K_uniq) by reflexivity.
  rewrite parse_metadata_other by reflexivity. cbn [rmap]. now destruct i.
Qed.

Lemma header_line_num_categories au rc i n :
  header_line au rc i (strip (K_ncat ++ 32%N :: show_N n)) = Ok (set_c_num_categories i n).
Proof.
  rewrite strip_kv; [|discriminate|reflexivity|apply strip_show_N]. rewrite spv_show_N.
  unfold header_line.
  rewrite (sw_false (lit "# NUMBER UNIQUE PREFERENCES") K_ncat) by reflexivity. cbn [rbind].
  rewrite (sw_true (lit "# NUMBER CATEGORIES") K_ncat) by reflexivity.
  change 20 with (List.length K_ncat). unfold drop. rewrite skipn_app_exact.
  rewrite py_int_sp_show_N. reflexivity.
Qed.

Lemma header_line_cat_name au rc i a nm : wf_value nm -> no_nlcr nm = true ->
  header_line au rc i (strip (name_line cat_name_prefix a nm)) =
  rmap (fun nm' => set_c_cat_names i (assoc_set N.eqb a nm' (c_cat_names i)))
       (corrected_name au nm (values (c_cat_names i)) rc).
Proof.
  intros Hv Hb. rewrite strip_name_line; [|reflexivity|exact Hv].
  pose proof (match_name_line_nl cat_name_prefix a nm (no_nlcr_no_nl _ Hb)) as M.
  unfold header_line.
  assert (E1 : startswith (lit "# NUMBER UNIQUE PREFERENCES") (name_key cat_name_prefix a ++ spv nm) = false).
  { unfold name_key. rewrite <- !app_assoc. now apply sw_false. }
  assert (E2 : startswith (lit "# NUMBER CATEGORIES") (name_key cat_name_prefix a ++ spv nm) = false).
  { unfold name_key. rewrite <- !app_assoc. now apply sw_false. }
  assert (E3 : startswith (lit "# CATEGORY NAME") (name_key cat_name_prefix a ++ spv nm) = true).
  { unfold name_key. rewrite <- !app_assoc. now apply sw_true. }
  rewrite E1. cbn [rbind]. rewrite E2, E3, M. reflexivity.
Qed.

(* the two count lines handled by parse_metadata *)
Definition K_nalt : text := lit "# NUMBER ALTERNATIVES:".
Definition K_nvot : text := lit "# NUMBER VOTERS:".

Lemma header_line_num_alternatives au rc i n :
  header_line au rc i (strip (K_nalt ++ 32%N :: show_N n)) = Ok (set_c_meta i (set_num_alternatives (c_meta i) n)).
Proof.
  rewrite header_line_meta.
  - unfold K_nalt. now rewrite parse_line_num_alternatives.
  - apply kv_not_cat; try reflexivity; try discriminate. apply strip_show_N.
Qed.

Lemma header_line_num_voters au rc i n :
  header_line au rc i (strip (K_nvot ++ 32%N :: show_N n)) = Ok (set_c_meta i (set_num_voters (c_meta i) n)).
Proof.
  rewrite header_line_meta.
  - unfold K_nvot. now rewrite parse_line_num_voters.
  - apply kv_not_cat; try reflexivity; try discriminate. apply strip_show_N.
Qed.

Lemma fold_header_counts au rc i0 i :
  fold_header au rc (Ok i0) (count_lines i) =
  Ok (set_c_num_categories
        (set_c_num_unique
           (set_c_meta i0 (set_num_voters (set_num_alternatives (c_meta i0) (num_alternatives (c_meta i)))
                                          (num_voters (c_meta i))))
           (c_num_unique i))
        (c_num_categories i)).
Proof.
  unfold fold_header, count_lines. cbn [fold_left rbind].
  fold K_nalt K_nvot K_uniq K_ncat.
  rewrite header_line_num_alternatives. cbn [rbind].
  rewrite header_line_num_voters. cbn [rbind].
  rewrite header_line_num_unique. cbn [rbind].
  rewrite header_line_num_categories. reflexivity.
Qed.

Lemma fold_header_cons au rc r l ls :
  fold_header au rc r (l :: ls) = fold_header au rc (rbind r (fun i => header_line au rc i (strip l))) ls.
Proof. reflexivity. Qed.

(* category names, autocorrect off *)
Lemma fold_header_cat_names rc d : Forall (fun p => wf_text_rl (snd p)) d -> forall i,
  fold_header false rc (Ok i) (cat_name_lines d) = Ok (set_c_cat_names i (set_all d (c_cat_names i))).
Proof.
  induction 1 as [|[a nm] r [Hv Hb] _ IH]; intros i.
  - cbn. now destruct i.
  - change (cat_name_lines ((a, nm) :: r)) with (name_line cat_name_prefix a nm :: cat_name_lines r).
    rewrite fold_header_cons. cbn [rbind]. cbn [snd] in Hv, Hb.
    rewrite header_line_cat_name by assumption. unfold corrected_name. cbn [andb rmap].
    rewrite IH. reflexivity.
Qed.

(* ================================================================================================ *)
(* D.4 well-formed instances; the header of a written file                                          *)
(* ================================================================================================ *)
Record wf_cat (i : cinst) : Prop := mk_wf_cat {
  wf_some_ballot : c_prefs i <> [];                                       (* at least one ballot *)
  wf_ncat : (1 <= c_num_categories i)%N;                                  (* 1 or more categories *)
  wf_len : Forall (fun b => N.of_nat (List.length b) = c_num_categories i) (c_prefs i);
  wf_mult_pos : Forall (fun p => (1 <= snd p)%N) (c_mult i);              (* multiplicities >= 1 *)
  wf_keys : Permutation (map fst (c_mult i)) (c_prefs i);                 (* table keys = ballot list, in ANY order *)
  wf_nodup : NoDup (c_prefs i);
  wf_meta : wf_fields (c_meta i);                                         (* single-line, no outer whitespace *)
  wf_dtype : data_type (c_meta i) = lit "cat";
  wf_resv : reserved (c_meta i) = [];                                     (* no parser state *)
  wf_alts : wf_names (alt_names (c_meta i));                              (* names as above, may be EMPTY; ids distinct *)
  wf_cats : wf_names (c_cat_names i)
}.

(* the same for the FILE entry points: text values may contain the eight splitlines-only boundaries inside *)
Record wf_cat_rl (i : cinst) : Prop := mk_wf_cat_rl {
  rl_some_ballot : c_prefs i <> [];
  rl_ncat : (1 <= c_num_categories i)%N;
  rl_len : Forall (fun b => N.of_nat (List.length b) = c_num_categories i) (c_prefs i);
  rl_mult_pos : Forall (fun p => (1 <= snd p)%N) (c_mult i);
  rl_keys : Permutation (map fst (c_mult i)) (c_prefs i);
  rl_nodup : NoDup (c_prefs i);
  rl_meta : wf_fields_rl (c_meta i);
  rl_dtype : data_type (c_meta i) = lit "cat";
  rl_resv : reserved (c_meta i) = [];
  rl_alts : wf_names_rl (alt_names (c_meta i));
  rl_cats : wf_names_rl (c_cat_names i)
}.

Lemma wf_cat_weaken i : wf_cat i -> wf_cat_rl i.
Proof.
  intros [A B C D E F G H I J K]. constructor; try assumption.
  - now apply wf_fields_weaken.
  - now apply wf_names_weaken.
  - now apply wf_names_weaken.
Qed.

Lemma wf_ballots_nonempty i : wf_cat_rl i -> Forall (fun b => b <> []) (c_prefs i).
Proof.
  intros W. eapply Forall_impl; [|apply (rl_len i W)]. intros b Hb ->. simpl in Hb.
  pose proof (rl_ncat i W). lia.
Qed.

Lemma hash_line_nl l : hash_line l -> hash_line (l ++ nl).
Proof. intros [r ->]. now exists (r ++ nl). Qed.

Lemma name_lines_hash prefix d : hash_line prefix ->
  Forall hash_line (map (fun p => name_line prefix (fst p) (snd p)) d).
Proof.
  intros [r ->]. apply Forall_forall. intros l Hl. apply in_map_iff in Hl as [[a nm] [<- _]].
  unfold name_line, name_key. eexists. reflexivity.
Qed.

Lemma header_lines_hash i : Forall hash_line (header_lines i).
Proof.
  unfold header_lines. rewrite !Forall_app. repeat split.
  - unfold meta_lines. repeat constructor; eexists; reflexivity.
  - unfold count_lines. repeat constructor; eexists; reflexivity.
  - apply name_lines_hash. eexists; reflexivity.
  - apply name_lines_hash. eexists; reflexivity.
Qed.

Definition start_inst : cinst := cinst0 (meta0 (lit "cat")).

Lemma fold_header_all i : wf_cat_rl i ->
  fold_header false [] (Ok start_inst) (header_lines i) = Ok (set_c_ballots i [] []).
Proof.
  intros W. unfold header_lines. rewrite !fold_header_app.
  (* the nine metadata lines *)
  rewrite (fold_header_meta_lines false [] start_inst (meta_lines (c_meta i)))
    by (apply meta_lines_not_cat, (rl_meta i W)).
  rewrite metadata_roundtrip_rl by apply (rl_meta i W). cbn [rmap].
  (* the four count lines *)
  rewrite fold_header_counts.
  (* category names *)
  destruct (rl_cats i W) as [CF CN].
  rewrite fold_header_cat_names by exact CF.
  (* alternative names *)
  destruct (rl_alts i W) as [AF AN].
  rewrite fold_header_meta_lines by (now apply alt_name_lines_not_cat).
  rewrite alt_names_roundtrip_fresh_rl; [|split; assumption|reflexivity].
  cbn [rmap]. f_equal.
  (* the rebuilt record *)
  cbn [c_cat_names c_meta c_num_unique c_num_categories c_prefs c_mult set_c_meta set_c_cat_names
       set_c_num_categories set_c_num_unique set_c_ballots start_inst cinst0].
  rewrite (set_all_fresh (c_cat_names i) []) by exact CN. cbn [app].
  pose proof (rl_resv i W) as R.
  destruct i as [m nu nc cn pr mu]. destruct m. cbn in R. subst. reflexivity.
Qed.

(* ================================================================================================ *)
(* D.5 the ballot loop and the whole file                                                           *)
(* ================================================================================================ *)
Lemma assoc_set_ballot_fresh b k (M : list (ballot * N)) :
  ~ In b (map fst M) -> assoc_set ballot_eqb b k M = M ++ [(b, k)].
Proof.
  induction M as [|[b' k'] r IH]; intros H; [reflexivity|]. cbn [assoc_set].
  destruct (ballot_eqb b b') eqn:E.
  - apply ballot_eqb_eq in E. subst. exfalso. apply H. now left.
  - cbn [app]. rewrite IH; [reflexivity|]. intros Hin. apply H. now right.
Qed.

Lemma set_c_ballots_self st : set_c_ballots st (c_prefs st) (c_mult st) = st.
Proof. now destruct st. Qed.

Lemma ballot_of_line_strip l l' : strip l = strip l' -> ballot_of_line l = ballot_of_line l'.
Proof. unfold ballot_of_line. now intros ->. Qed.

Lemma ballot_text_ws_read mu w c b : forallb is_space w = true ->
  ballot_of_line (ballot_text mu (c :: b) ++ w) = Ok (mult_of mu (c :: b), c :: b).
Proof.
  intros Hw. rewrite <- ballot_line_read. apply ballot_of_line_strip.
  rewrite ballot_line_text. rewrite !strip_nl_r; [reflexivity|reflexivity|exact Hw].
Qed.

Lemma ballot_loop_lines mu w S : forallb is_space w = true -> forall st,
  Forall (fun b => b <> []) S -> NoDup S -> (forall b, In b S -> ~ In b (map fst (c_mult st))) ->
  ballot_loop false st (map (fun b => ballot_text mu b ++ w) S)
  = Ok (set_c_ballots st (c_prefs st ++ S) (c_mult st ++ retable mu S)).
Proof.
  intros Hw. induction S as [|b S IH]; intros st NE ND FR.
  - cbn [map ballot_loop retable]. rewrite !app_nil_r. now rewrite set_c_ballots_self.
  - inversion NE as [|? ? Hb NE']; subst. inversion ND as [|? ? Hnin ND']; subst.
    cbn [map ballot_loop].
    destruct b as [|c b']; [now elim Hb|]. rewrite ballot_text_ws_read by exact Hw. cbn [rbind].
    unfold add_ballot. rewrite assoc_set_ballot_fresh by (apply FR; now left).
    rewrite IH; [|exact NE'|exact ND'|].
    + f_equal. destruct st as [m nu nc cn pr M]. cbn [set_c_ballots c_prefs c_mult c_meta c_num_unique
        c_num_categories c_cat_names retable map]. now rewrite <- !app_assoc.
    + intros b2 Hb2. cbn [set_c_ballots c_mult]. rewrite map_app, in_app_iff. intros [Hin|Hin].
      * apply (FR b2); [now right|exact Hin].
      * cbn in Hin. destruct Hin as [<-|[]]. contradiction.
Qed.

Lemma strip_ballot_line mu c b :
  strip (ballot_line mu (c :: b)) = show_N (mult_of mu (c :: b)) ++ lit ": " ++ body c b.
Proof.
  unfold ballot_line. rewrite strip_pref_str.
  set (m := mult_of mu (c :: b)).
  replace (show_N m ++ lit ": " ++ body c b ++ nl) with ((show_N m ++ lit ": " ++ body c b) ++ nl)
    by (now rewrite <- !app_assoc).
  rewrite strip_nl_r by reflexivity.
  apply strip_fix_good.
  - apply starts_good_app. destruct (show_N_starts m) as [z [t1 [E H]]]. exists z, t1. split; [exact E|].
    apply orb_true_iff in H as [H|H]; [now rewrite H|].
    exfalso. apply N.eqb_eq in H. subst z. pose proof (show_N_digits m) as D. rewrite E in D. discriminate.
  - apply ends_good_app, ends_good_app, body_ends.
Qed.

Lemma ballot_line_not_hash mu c b : startswith hash_prefix (strip (ballot_line mu (c :: b))) = false.
Proof.
  rewrite strip_ballot_line. pose proof (show_N_nonempty (mult_of mu (c :: b))) as NE.
  pose proof (show_N_digits (mult_of mu (c :: b))) as D.
  destruct (show_N (mult_of mu (c :: b))) as [|z t]; [now elim NE|]. simpl in D.
  apply andb_true_iff in D as [Dz _].
  change (startswith hash_prefix ((z :: t) ++ lit ": " ++ body c b)) with (N.eqb 35 z && true).
  destruct (N.eqb_spec 35 z) as [<-|]; [discriminate|reflexivity].
Qed.

Lemma ballot_text_not_hash mu w c b : forallb is_space w = true ->
  startswith hash_prefix (strip (ballot_text mu (c :: b) ++ w)) = false.
Proof.
  intros Hw. rewrite strip_nl_r by exact Hw. rewrite <- (strip_nl_r _ nl) by reflexivity.
  rewrite <- ballot_line_text. apply ballot_line_not_hash.
Qed.

Definition file_lines (i : cinst) : list text :=
  header_lines i ++ map (ballot_text (c_mult i)) (sorted_prefs i).

Lemma all_lines_no_break i : wf_cat i -> forallb no_break (file_lines i) = true.
Proof.
  intros W. unfold file_lines, header_lines. rewrite !forallb_app.
  rewrite meta_lines_no_break by apply (wf_meta i W). rewrite count_lines_no_break.
  destruct (wf_cats i W) as [CF _]. destruct (wf_alts i W) as [AF _].
  unfold cat_name_lines. rewrite name_lines_no_break by (reflexivity || exact CF).
  rewrite alt_name_lines_no_break by exact AF. cbn [andb].
  apply forallb_forall. intros l Hl. apply in_map_iff in Hl as [b [<- Hb]].
  assert (NE : b <> []).
  { pose proof (wf_ballots_nonempty i (wf_cat_weaken i W)) as F. rewrite Forall_forall in F. apply F.
    eapply Permutation_in; [apply Permutation_sym, sorted_prefs_perm|exact Hb]. }
  destruct b as [|c b']; [now elim NE|]. apply ballot_text_no_break.
Qed.

Lemma all_lines_no_nlcr i : wf_cat_rl i -> forallb no_nlcr (file_lines i) = true.
Proof.
  intros W. unfold file_lines, header_lines. rewrite !forallb_app.
  rewrite meta_lines_no_nlcr by apply (rl_meta i W).
  rewrite (forallb_no_nlcr _ (count_lines_no_break i)).
  destruct (rl_cats i W) as [CF _]. destruct (rl_alts i W) as [AF _].
  unfold cat_name_lines, alt_name_lines. rewrite !name_lines_no_nlcr by (reflexivity || assumption).
  cbn [andb].
  apply forallb_forall. intros l Hl. apply in_map_iff in Hl as [b [<- Hb]].
  assert (NE : b <> []).
  { pose proof (wf_ballots_nonempty i W) as F. rewrite Forall_forall in F. apply F.
    eapply Permutation_in; [apply Permutation_sym, sorted_prefs_perm|exact Hb]. }
  destruct b as [|c b']; [now elim NE|]. apply no_break_no_nlcr, ballot_text_no_break.
Qed.

(* the header loop on the lines of a written file (each followed by the same whitespace: a newline for readlines,
   nothing for splitlines): it rebuilds everything but the ballots and stops at the first ballot line *)
Lemma header_loop_file w i : forallb is_space w = true -> wf_cat_rl i ->
  header_loop false [] start_inst (map (fun l => l ++ w) (file_lines i))
  = Ok (set_c_ballots i [] [], map (fun b => ballot_text (c_mult i) b ++ w) (sorted_prefs i)).
Proof.
  intros Hw W. unfold file_lines. rewrite map_app, map_map.
  set (mu := c_mult i). remember (sorted_prefs i) as S eqn:ES.
  assert (PS : Permutation (c_prefs i) S) by (rewrite ES; apply sorted_prefs_perm).
  assert (NES : Forall (fun b => b <> []) S).
  { eapply Permutation_Forall; [exact PS|now apply wf_ballots_nonempty]. }
  destruct S as [|s S'].
  { exfalso. apply (rl_some_ballot i W). now apply Permutation_nil, Permutation_sym. }
  rewrite (header_loop_app false [] _ start_inst (set_c_ballots i [] [])).
  2:{ discriminate. }
  2:{ apply Forall_forall. intros l Hl. apply in_map_iff in Hl as [l0 [<- Hl0]].
      pose proof (header_lines_hash i) as F. rewrite Forall_forall in F. destruct (F l0 Hl0) as [r ->].
      now exists (r ++ w). }
  2:{ rewrite fold_header_ws by exact Hw. now apply fold_header_all. }
  inversion NES as [|? ? Hs _]; subst. destruct s as [|c s']; [now elim Hs|].
  cbn [map]. now rewrite header_loop_stop by (now apply ballot_text_not_hash).
Qed.

Theorem roundtrip_lines w i : forallb is_space w = true -> wf_cat_rl i ->
  cat_parse false false (meta0 (lit "cat")) (map (fun l => l ++ w) (file_lines i)) = Ok (sorted_view i).
Proof.
  intros Hw W.
  unfold cat_parse. change (teqb (data_type (meta0 (lit "cat"))) (lit "cat")) with true. cbv iota.
  unfold cat_parse_body. fold start_inst. rewrite header_loop_file by assumption. cbn [rbind].
  assert (PS : Permutation (c_prefs i) (sorted_prefs i)) by apply sorted_prefs_perm.
  assert (NES : Forall (fun b => b <> []) (sorted_prefs i)).
  { eapply Permutation_Forall; [exact PS|now apply wf_ballots_nonempty]. }
  assert (NDS : NoDup (sorted_prefs i)) by (eapply Permutation_NoDup; [exact PS|apply (rl_nodup i W)]).
  assert (FR : forall b, In b (sorted_prefs i) -> ~ In b (map fst (c_mult (set_c_ballots i [] [])))).
  { intros b _ []. }
  rewrite (ballot_loop_lines (c_mult i) w (sorted_prefs i) Hw _ NES NDS FR).
  reflexivity.
Qed.

(* header_only=True on the same lines: everything but the ballots (used by C10) *)
Theorem header_only_lines w i : forallb is_space w = true -> wf_cat_rl i ->
  cat_parse false true (meta0 (lit "cat")) (map (fun l => l ++ w) (file_lines i)) = Ok (set_c_ballots i [] []).
Proof.
  intros Hw W.
  unfold cat_parse. change (teqb (data_type (meta0 (lit "cat"))) (lit "cat")) with true. cbv iota.
  unfold cat_parse_body. fold start_inst. now rewrite header_loop_file by assumption.
Qed.

(* C08_roundtrip: parse_file (readlines) of the written file gives back the instance, ballots in file order *)
Theorem roundtrip_readlines_rl i : wf_cat_rl i ->
  cat_parse false false (meta0 (lit "cat")) (readlines (cat_write i)) = Ok (sorted_view i).
Proof.
  intros W. rewrite cat_write_lines. fold (file_lines i).
  rewrite readlines_unlines by (now apply all_lines_no_nlcr).
  now apply (roundtrip_lines nl).
Qed.

Theorem roundtrip_readlines i : wf_cat i ->
  cat_parse false false (meta0 (lit "cat")) (readlines (cat_write i)) = Ok (sorted_view i).
Proof. intros W. now apply roundtrip_readlines_rl, wf_cat_weaken. Qed.

(* the same through parse_str (splitlines) *)
Theorem roundtrip_splitlines i : wf_cat i ->
  cat_parse false false (meta0 (lit "cat")) (splitlines (cat_write i)) = Ok (sorted_view i).
Proof.
  intros W. rewrite cat_write_lines. fold (file_lines i).
  rewrite splitlines_unlines by (now apply all_lines_no_break).
  assert (E : map (fun l : text => l ++ []) (file_lines i) = file_lines i).
  { rewrite <- (map_id (file_lines i)) at 2. apply map_ext. intros l. apply app_nil_r. }
  rewrite <- E. now apply (roundtrip_lines []), wf_cat_weaken.
Qed.

(* ================================================================================================ *)
(* E. what sorted_view keeps; statements about the parsed file                                      *)
(* ================================================================================================ *)
Lemma mult_of_cons_neq b k r x : x <> b -> mult_of ((b, k) :: r) x = mult_of r x.
Proof. intros H. unfold mult_of. cbn [assoc_get]. now rewrite ballot_eqb_neq. Qed.

Lemma retable_self mu : NoDup (map fst mu) -> retable mu (map fst mu) = mu.
Proof.
  induction mu as [|[b k] r IH]; intros ND; [reflexivity|]. inversion ND as [|? ? Hnin ND']; subst.
  cbn [map fst retable]. f_equal.
  - unfold mult_of. cbn [assoc_get]. now rewrite ballot_eqb_refl.
  - rewrite <- (IH ND') at 2. unfold retable. apply map_ext_in. intros x Hx. f_equal.
    apply mult_of_cons_neq. intros ->. contradiction.
Qed.

(* the sorted view holds the same table (as a dict), the same ballots (as a multiset), everything else equal *)
Theorem sorted_view_same i : wf_cat_rl i ->
  c_meta (sorted_view i) = c_meta i /\ c_num_unique (sorted_view i) = c_num_unique i /\
  c_num_categories (sorted_view i) = c_num_categories i /\ c_cat_names (sorted_view i) = c_cat_names i /\
  Permutation (c_prefs i) (c_prefs (sorted_view i)) /\
  Permutation (c_mult i) (c_mult (sorted_view i)) /\
  (forall b, mult_of (c_mult (sorted_view i)) b = mult_of (c_mult i) b).
Proof.
  intros W. repeat split; try reflexivity.
  - apply sorted_prefs_perm.
  - rewrite sorted_view_mult. rewrite <- (retable_self (c_mult i)) at 1.
    + unfold retable. apply Permutation_map.
      eapply Permutation_trans; [apply (rl_keys i W)|apply sorted_prefs_perm].
    + eapply Permutation_NoDup; [apply Permutation_sym, (rl_keys i W)|apply (rl_nodup i W)].
  - intros b. rewrite sorted_view_mult.
    destruct (in_dec (list_eq_dec (list_eq_dec N.eq_dec)) b (sorted_prefs i)) as [Hin|Hnin].
    + now apply mult_of_retable.
    + (* not a ballot of the instance: absent from both tables *)
      assert (A : forall M, ~ In b (map fst M) -> mult_of M b = 0%N).
      { intros M. unfold mult_of. induction M as [|[b' k'] r IH]; intros H; [reflexivity|]. cbn [assoc_get].
        rewrite ballot_eqb_neq; [apply IH|]; intros E; apply H; [now right|now left]. }
      rewrite !A; [reflexivity| |].
      * intros Hin. apply Hnin.
        eapply Permutation_in; [apply sorted_prefs_perm|].
        eapply Permutation_in; [apply (rl_keys i W)|exact Hin].
      * unfold retable. rewrite map_map. cbn [fst]. now rewrite map_id.
Qed.

Lemma sorted_view_non_increasing i : mult_non_increasing (c_mult (sorted_view i)) (c_prefs (sorted_view i)).
Proof.
  rewrite sorted_view_mult, sorted_view_prefs. unfold mult_non_increasing.
  eapply StronglySorted_ext_in; [|apply sorted_prefs_non_increasing].
  intros x y Hx Hy H. cbv beta in *. now rewrite !mult_of_retable.
Qed.

(* ================================================================================================ *)
(* F. a ballot with ZERO categories (outside the quantifier, recorded because the code accepts it)  *)
(* ================================================================================================ *)
(* write prints "<mult>: " + newline; the reader strips it to "<mult>:", splits it into the multiplicity and
   the empty string, and builds the empty tuple: the line is read back as well *)
Lemma ballot_line_read_zero mu : ballot_of_line (ballot_line mu []) = Ok (mult_of mu [], []).
Proof.
  unfold ballot_of_line, ballot_line. set (m := mult_of mu []).
  change (strip_chars (lit ", ") (pref_str [])) with (@nil N).
  replace (show_N m ++ lit ": " ++ [] ++ nl) with ((show_N m ++ [58%N]) ++ [32%N; 10%N])
    by (now rewrite <- app_assoc).
  rewrite strip_nl_r by reflexivity.
  assert (S : strip (show_N m ++ [58%N]) = show_N m ++ [58%N]).
  { unfold strip. rewrite <- (app_nil_r (show_N m ++ [58%N])) at 1. apply strip_by_keep; [| |reflexivity].
    - destruct (show_N_starts m) as [z [t1 [E H]]]. exists z, (t1 ++ [58%N]). rewrite E. split; [reflexivity|].
      now apply good_start_not_space.
    - exists (show_N m), 58%N. split; reflexivity. }
  rewrite S. rewrite remove_sp_app, remove_sp_show. change (remove_sp [58%N]) with [58%N].
  rewrite split_on_app. rewrite (split_on_none 58 (show_N m)) by (now apply show_N_lacks).
  cbn [split_on app]. rewrite py_int_show_N. reflexivity.
Qed.

Theorem ballot_line_read_any mu b : ballot_of_line (ballot_line mu b) = Ok (mult_of mu b, b).
Proof. destruct b as [|c b]; [apply ballot_line_read_zero|apply ballot_line_read]. Qed.

(* ================================================================================================ *)
(* G. the state machine computes the declarative reading of the pattern                             *)
(* ================================================================================================ *)
Definition stops (t : text) : Prop := match t with [] => True | c :: _ => is_run c = false end.

Lemma span_run_spec s : forall d t, span_run s = (d, t) ->
  s = d ++ t /\ forallb is_run d = true /\ stops t.
Proof.
  induction s as [|c r IH]; intros d t H; simpl in H.
  - injection H as <- <-. repeat split.
  - destruct (is_run c) eqn:E.
    + destruct (span_run r) as [d' t'] eqn:E'. injection H as <- <-.
      destruct (IH d' t' eq_refl) as (A & B & C). subst r. repeat split; [simpl; now rewrite E|exact C].
    + injection H as <- <-. repeat split. exact E.
Qed.

Lemma span_run_length s d t : span_run s = (d, t) -> List.length t <= List.length s.
Proof. intros H. apply span_run_spec in H as (-> & _ & _). rewrite app_length. lia. Qed.

(* a brace group that is not closed right after its run behaves like no brace at all *)
Lemma brace_fail acc t : stops t -> (match t with 125%N :: _ => False | _ => True end) ->
  tok_go true acc t = tok_go false acc t.
Proof.
  intros S NC. destruct t as [|x t']; [reflexivity|]. simpl in S. cbn [tok_go]. rewrite S.
  destruct (N.eqb_spec x 123); [reflexivity|]. destruct (N.eqb_spec x 125) as [->|]; [now elim NC|reflexivity].
Qed.

Lemma tokenize_findall_fuel n : forall s, List.length s <= n -> forall f, List.length s < f ->
  findall_ref f s = tok_go false [] s.
Proof.
  induction n as [|n IH]; intros s Hn f Hf.
  - destruct s; [|simpl in Hn; lia]. destruct f; reflexivity.
  - destruct f as [|f]; [lia|]. destruct s as [|c r]; [reflexivity|]. simpl in Hn, Hf.
    cbn [findall_ref]. destruct (N.eqb_spec c 123) as [->|Hc].
    + (* an opening brace *)
      destruct (span_run r) as [d t] eqn:E. pose proof (span_run_spec r d t E) as (Er & Rd & St).
      rewrite tok_go_open. cbn [flush app].
      assert (Lt : List.length t <= List.length r) by (now apply span_run_length in E).
      destruct t as [|x t'].
      * rewrite (IH r) by lia. rewrite Er at 2. rewrite tok_go_run by exact Rd.
        rewrite Er. rewrite tok_go_run by exact Rd. reflexivity.
      * destruct (N.eqb_spec x 125) as [->|Hx].
        -- rewrite Er. rewrite tok_go_run by exact Rd. rewrite tok_go_close.
           simpl in Lt. rewrite (IH t') by lia. f_equal. f_equal. simpl. rewrite app_nil_r.
           now rewrite rev_involutive.
        -- replace (match x :: t' with
                    | 125%N :: t'0 => (123%N :: d ++ [125%N]) :: findall_ref f t'0
                    | _ => findall_ref f r end) with (findall_ref f r).
           2:{ destruct x as [|p]; [reflexivity|].
               repeat (destruct p as [p|p|]; try reflexivity). now elim Hx. }
           rewrite (IH r) by lia. rewrite Er. rewrite !tok_go_run by exact Rd.
           symmetry. apply brace_fail; [exact St|]. destruct x as [|p]; [exact I|].
           repeat (destruct p as [p|p|]; try exact I). now elim Hx.
    + destruct (is_run c) eqn:Rc.
      * (* a run *)
        change (is_run c) with (is_run c) in Rc.
        destruct (span_run (c :: r)) as [d t] eqn:E. pose proof (span_run_spec _ d t E) as (Es & Rd & St).
        assert (Dne : d <> []).
        { intros ->. simpl in Es. subst t. simpl in St. congruence. }
        assert (Lt : List.length t < List.length (c :: r)).
        { rewrite Es, app_length. destruct d; [now elim Dne|simpl; lia]. }
        simpl in Lt. rewrite Es. rewrite tok_go_run by exact Rd. rewrite app_nil_r.
        destruct t as [|x t'].
        -- destruct f; cbn [findall_ref tok_go]; now rewrite flush_rev.
        -- simpl in St. simpl in Lt. rewrite (IH (x :: t')) by (simpl; lia).
           cbn [tok_go]. rewrite St. rewrite flush_rev by exact Dne.
           destruct (N.eqb_spec x 123); [reflexivity|].
           rewrite andb_false_r. reflexivity.
      * (* any other character is skipped *)
        rewrite (IH r) by lia. cbn [tok_go]. rewrite Rc.
        apply N.eqb_neq in Hc. rewrite Hc. rewrite andb_false_r. reflexivity.
Qed.

(* tokenize is the declarative reading of re.findall(r"{[\d,]+?}|[\d,]+|{}", s) *)
Theorem tokenize_findall s : tokenize s = findall s.
Proof. unfold tokenize, findall. symmetry. apply (tokenize_findall_fuel (List.length s)); lia. Qed.
