(* Proofs/Tree.v — C13: specification (paths, connectivity, spanning trees, SPT), correctness of the
   boolean connectivity test, of the tree / witness checkers, completeness of the enumeration of
   candidate trees and correctness of the reference decider; invariance lemmas. *)
From Coq Require Import List NArith Bool Arith Lia Permutation.
From PrefVerif Require Import Model.Tree.
Import ListNotations.

(* ------------------------------------------------------------------------------------------------ *)
(** * Specification *)

Definition adj (T : list edge) (a b : N) : Prop := In (a, b) T \/ In (b, a) T.

(* a walk from a to c all of whose vertices lie in S *)
Inductive path_in (T : list edge) (S : list N) : N -> N -> Prop :=
| path_refl a : In a S -> path_in T S a a
| path_step a b c : In a S -> adj T a b -> path_in T S b c -> path_in T S a c.

(* the subgraph induced on S is connected *)
Definition connected (T : list edge) (S : list N) : Prop :=
  forall a b, In a S -> In b S -> path_in T S a b.

Definition edge_wf (alts : list N) (e : edge) : Prop :=
  In (fst e) alts /\ In (snd e) alts /\ fst e <> snd e.

(* |alts| - 1 edges, each joining two distinct alternatives, and the graph on alts is connected *)
Definition spanning_tree (alts : list N) (T : list edge) : Prop :=
  length alts = S (length T) /\ Forall (edge_wf alts) T /\ connected T alts.

Definition spt_spec (alts : list N) (p : list (list N)) (T : list edge) : Prop :=
  spanning_tree alts T /\ forall v, In v p -> forall k, connected T (firstn k v).

Definition SPT (alts : list N) (p : list (list N)) : Prop := exists T, spt_spec alts p T.

(* two edge lists describing the same undirected graph with the same number of edges *)
Definition same_graph (T T' : list edge) : Prop :=
  length T = length T' /\ forall a b, adj T a b <-> adj T' a b.

(* ------------------------------------------------------------------------------------------------ *)
(** * Booleans vs. propositions *)

Lemma bool_eq_iff (a b : bool) : (a = true <-> b = true) -> a = b.
Proof. destruct a, b; intros [H1 H2]; auto; try (symmetry; auto); discriminate (H1 eq_refl) || auto. Qed.

Lemma edge_joins_iff a b e : edge_joins a b e = true <-> e = (a, b) \/ e = (b, a).
Proof.
  unfold edge_joins. destruct e as [x y]. cbn [fst snd].
  rewrite orb_true_iff, !andb_true_iff, !N.eqb_eq. split.
  - intros [[-> ->]|[-> ->]]; auto.
  - intros [H|H]; inversion H; subst; auto.
Qed.

Lemma adjb_iff T a b : adjb T a b = true <-> adj T a b.
Proof.
  unfold adjb, adj. rewrite existsb_exists. split.
  - intros (e & Hin & He). apply edge_joins_iff in He. destruct He; subst; auto.
  - intros [H|H]; eexists; (split; [exact H|]); apply edge_joins_iff; auto.
Qed.

Lemma adj_sym T a b : adj T a b -> adj T b a.
Proof. unfold adj; tauto. Qed.

Lemma memb_iff x l : memb x l = true <-> In x l.
Proof.
  unfold memb. rewrite existsb_exists. split.
  - intros (y & Hy & E). apply N.eqb_eq in E. subst; auto.
  - intros H. exists x. split; auto. apply N.eqb_refl.
Qed.

Lemma near_iff T R x : near T R x = true <-> In x R \/ exists r, In r R /\ adj T r x.
Proof.
  unfold near. rewrite orb_true_iff, memb_iff, existsb_exists.
  split; (intros [H|(r & Hr & Ha)]; [left; exact H|right; exists r; split; [exact Hr|]]);
    apply adjb_iff; exact Ha.
Qed.

(* ------------------------------------------------------------------------------------------------ *)
(** * Paths and connectivity *)

Lemma path_in_l T S a b : path_in T S a b -> In a S.
Proof. destruct 1; assumption. Qed.

Lemma path_in_r T S a b : path_in T S a b -> In b S.
Proof. induction 1; assumption. Qed.

Lemma path_mono T S S' a b : incl S S' -> path_in T S a b -> path_in T S' a b.
Proof.
  intros Hi. induction 1 as [a Ha|a b c Ha Hab _ IH].
  - apply path_refl. auto.
  - eapply path_step; eauto.
Qed.

Lemma path_adj_mono T T' S a b :
  (forall x y, adj T x y -> adj T' x y) -> path_in T S a b -> path_in T' S a b.
Proof.
  intros Hi. induction 1 as [a Ha|a b c Ha Hab _ IH].
  - apply path_refl. auto.
  - eapply path_step; eauto.
Qed.

Lemma path_trans T S a b c : path_in T S a b -> path_in T S b c -> path_in T S a c.
Proof.
  induction 1 as [a Ha|a b' c' Ha Hab _ IH]; intros H2; auto.
  eapply path_step; eauto.
Qed.

Lemma path_sym T S a b : path_in T S a b -> path_in T S b a.
Proof.
  induction 1 as [a Ha|a b c Ha Hab Hbc IH].
  - apply path_refl; auto.
  - eapply path_trans; [exact IH|].
    eapply path_step; [eapply path_in_l; exact Hbc|apply adj_sym; exact Hab|apply path_refl; exact Ha].
Qed.

Lemma connected_nil T : connected T [].
Proof. intros a b []. Qed.

Lemma connected_single T s : connected T [s].
Proof. intros a b [<-|[]] [<-|[]]. apply path_refl. left; reflexivity. Qed.

Lemma connected_ext T S S' : incl S S' -> incl S' S -> connected T S -> connected T S'.
Proof.
  intros H1 H2 Hc a b Ha Hb. eapply path_mono; [exact H1|]. apply Hc; auto.
Qed.

Lemma connected_perm T S S' : Permutation S S' -> connected T S -> connected T S'.
Proof.
  intros Hp. apply connected_ext; intros x Hx.
  - eapply Permutation_in; eauto.
  - eapply Permutation_in; [apply Permutation_sym; exact Hp|exact Hx].
Qed.

Lemma connected_adj_ext T T' S :
  (forall a b, adj T a b <-> adj T' a b) -> connected T S -> connected T' S.
Proof.
  intros He Hc a b Ha Hb. eapply path_adj_mono; [|apply Hc; auto].
  intros x y. apply He.
Qed.

Lemma star_connected T S s :
  (forall c, In c S -> path_in T S s c) -> connected T S.
Proof.
  intros Hs a b Ha Hb. eapply path_trans; [apply path_sym; apply Hs; exact Ha|apply Hs; exact Hb].
Qed.

Lemma conn_add T R x : connected T R -> near T R x = true -> connected T (x :: R).
Proof.
  intros Hc Hn. apply near_iff in Hn. destruct Hn as [Hin|(r & Hr & Ha)].
  - eapply connected_ext; [| |exact Hc].
    + intros y Hy. right; exact Hy.
    + intros y [<-|Hy]; auto.
  - apply (star_connected T (x :: R) r). intros c [<-|Hc'].
    + eapply path_step; [right; exact Hr|exact Ha|apply path_refl; left; reflexivity].
    + eapply path_mono; [|apply Hc; [exact Hr|exact Hc']]. intros y Hy; right; exact Hy.
Qed.

(* a path that starts in R and ends in rest must step from R to a vertex of rest *)
Lemma crossing T R rest a b :
  path_in T (R ++ rest) a b -> In a R -> In b rest -> exists y, In y rest /\ near T R y = true.
Proof.
  induction 1 as [a Ha|a b c Ha Hab Hbc IH]; intros HaR Hrest.
  - exists a. split; [exact Hrest|]. apply near_iff. left; exact HaR.
  - assert (Hb : In b (R ++ rest)) by (eapply path_in_l; exact Hbc).
    apply in_app_or in Hb. destruct Hb as [HbR|Hbr].
    + apply IH; assumption.
    + exists b. split; [exact Hbr|]. apply near_iff. right. exists a. split; assumption.
Qed.

(* ------------------------------------------------------------------------------------------------ *)
(** * pick / grow / connected_in *)

Lemma pick_some f l x l' : pick f l = Some (x, l') -> f x = true /\ Permutation l (x :: l').
Proof.
  revert x l'. induction l as [|y l IH]; intros x l' H; cbn in H; [discriminate|].
  destruct (f y) eqn:Ef.
  - injection H as <- <-. split; [exact Ef|apply Permutation_refl].
  - destruct (pick f l) as [[z r]|] eqn:Ep; [|discriminate].
    injection H as <- <-. destruct (IH _ _ eq_refl) as [Hz Hp]. split; [exact Hz|].
    eapply Permutation_trans; [apply perm_skip; exact Hp|apply perm_swap].
Qed.

Lemma pick_none f l : pick f l = None -> forall x, In x l -> f x = false.
Proof.
  induction l as [|y l IH]; intros H x Hx; cbn in H; [destruct Hx|].
  destruct (f y) eqn:Ef; [discriminate|].
  destruct (pick f l) as [[z r]|] eqn:Ep; [discriminate|].
  destruct Hx as [<-|Hx]; auto.
Qed.

Lemma grow_sound T fuel : forall R rest,
  connected T R -> grow fuel T R rest = [] -> connected T (R ++ rest).
Proof.
  induction fuel as [|f IH]; intros R rest Hc Hg; cbn in Hg.
  - subst rest. rewrite app_nil_r. exact Hc.
  - destruct (pick (near T R) rest) as [[x rest']|] eqn:Ep.
    + apply pick_some in Ep. destruct Ep as [Hn Hp].
      assert (H : connected T ((x :: R) ++ rest')) by (apply IH; [apply conn_add; assumption|exact Hg]).
      eapply connected_perm; [|exact H]. cbn.
      eapply Permutation_trans; [apply Permutation_middle|].
      apply Permutation_app_head. apply Permutation_sym. exact Hp.
    + subst rest. rewrite app_nil_r. exact Hc.
Qed.

Lemma grow_complete T fuel : forall R rest,
  length rest <= fuel -> R <> [] -> connected T (R ++ rest) -> grow fuel T R rest = [].
Proof.
  induction fuel as [|f IH]; intros R rest Hl HR Hc; cbn.
  - destruct rest; [reflexivity|cbn in Hl; lia].
  - destruct (pick (near T R) rest) as [[x rest']|] eqn:Ep.
    + apply pick_some in Ep. destruct Ep as [Hn Hp].
      apply IH.
      * apply Permutation_length in Hp. cbn in Hp. lia.
      * discriminate.
      * eapply connected_perm; [|exact Hc]. cbn.
        eapply Permutation_trans; [apply Permutation_app_head; exact Hp|].
        apply Permutation_sym. apply Permutation_middle.
    + destruct rest as [|y rest]; [reflexivity|]. exfalso.
      destruct R as [|r R]; [contradiction|].
      assert (Hp : path_in T ((r :: R) ++ y :: rest) r y).
      { apply Hc; [left; reflexivity|apply in_or_app; right; left; reflexivity]. }
      destruct (crossing _ _ _ _ _ Hp) as (z & Hz & Hnz); [left; reflexivity|left; reflexivity|].
      rewrite (pick_none _ _ Ep z Hz) in Hnz. discriminate.
Qed.

Theorem connected_correct T S : connected_in T S = true <-> connected T S.
Proof.
  destruct S as [|s S']; cbn.
  - split; [intros _; apply connected_nil|reflexivity].
  - split.
    + destruct (grow (length S') T [s] S') eqn:Eg; [intros _|discriminate].
      change (s :: S') with ([s] ++ S'). eapply grow_sound; [apply connected_single|exact Eg].
    + intros Hc.
      assert (Hg : grow (length S') T [s] S' = []) by (apply grow_complete; [lia|discriminate|exact Hc]).
      rewrite Hg. reflexivity.
Qed.

(* ------------------------------------------------------------------------------------------------ *)
(** * tree_check, spt_check *)

Lemma edge_ok_iff alts e : edge_ok alts e = true <-> edge_wf alts e.
Proof.
  unfold edge_ok, edge_wf. rewrite !andb_true_iff, !memb_iff, negb_true_iff, N.eqb_neq. tauto.
Qed.

Theorem tree_check_correct alts T : tree_check alts T = true <-> spanning_tree alts T.
Proof.
  unfold tree_check, spanning_tree.
  rewrite !andb_true_iff, Nat.eqb_eq, forallb_forall, Forall_forall, connected_correct.
  split.
  - intros [[H1 H2] H3]. split; [symmetry; exact H1|]. split; [|exact H3].
    intros e He. apply edge_ok_iff. auto.
  - intros (H1 & H2 & H3). split; [split; [symmetry; exact H1|]|exact H3].
    intros e He. apply edge_ok_iff. auto.
Qed.

Lemma prefixes_connected_iff T v :
  prefixes_connected T v = true <-> forall k, connected T (firstn k v).
Proof.
  unfold prefixes_connected. rewrite forallb_forall. split.
  - intros H k.
    destruct (Nat.eq_dec k 0) as [->|Hk0]; [apply connected_nil|].
    destruct (le_lt_dec k (length v)) as [Hle|Hgt].
    + apply connected_correct. apply H. apply in_seq. lia.
    + rewrite firstn_all2 by lia.
      destruct v as [|x v]; [apply connected_nil|].
      rewrite <- (firstn_all (x :: v)). apply connected_correct. apply H. apply in_seq. cbn. lia.
  - intros H k _. apply connected_correct. apply H.
Qed.

Theorem spt_check_correct alts p T : spt_check alts p T = true <-> spt_spec alts p T.
Proof.
  unfold spt_check, spt_spec. rewrite andb_true_iff, tree_check_correct, forallb_forall.
  split; intros [H1 H2]; (split; [exact H1|]).
  - intros v Hv. apply prefixes_connected_iff. auto.
  - intros v Hv. apply prefixes_connected_iff. auto.
Qed.

(* the one-pass test *)
Lemma attach_ok_iff T v : forall seen, seen <> [] -> connected T seen ->
  (attach_ok T seen v = true <-> forall k, connected T (seen ++ firstn k v)).
Proof.
  induction v as [|x v IH]; intros seen Hne Hc; cbn [attach_ok].
  - split; [|reflexivity]. intros _ k. rewrite firstn_nil, app_nil_r. exact Hc.
  - rewrite andb_true_iff. split.
    + intros [Hn Ha] k. destruct k as [|k]; [cbn; rewrite app_nil_r; exact Hc|].
      cbn [firstn]. eapply connected_perm; [apply Permutation_middle|].
      apply (proj1 (IH (x :: seen) ltac:(discriminate) (conn_add _ _ _ Hc Hn)) Ha k).
    + intros H.
      assert (Hn : near T seen x = true).
      { specialize (H 1). cbn in H. destruct seen as [|s seen]; [contradiction|].
        assert (Hp : path_in T ((s :: seen) ++ [x]) s x).
        { apply H; [left; reflexivity|apply in_or_app; right; left; reflexivity]. }
        destruct (crossing _ _ _ _ _ Hp) as (y & [<-|[]] & Hy); [left; reflexivity|left; reflexivity|].
        exact Hy. }
      split; [exact Hn|].
      apply IH; [discriminate|apply conn_add; assumption|].
      intros k. specialize (H (S k)). cbn [firstn] in H.
      eapply connected_perm; [apply Permutation_sym; apply Permutation_middle|exact H].
Qed.

Lemma vote_ok_iff T v : vote_ok T v = true <-> forall k, connected T (firstn k v).
Proof.
  destruct v as [|x v]; cbn [vote_ok].
  - split; [|reflexivity]. intros _ k. rewrite firstn_nil. apply connected_nil.
  - rewrite (attach_ok_iff T v [x]); [|discriminate|apply connected_single]. split.
    + intros H [|k]; [apply connected_nil|]. apply (H k).
    + intros H k. apply (H (S k)).
Qed.

Lemma vote_ok_eq T v : vote_ok T v = prefixes_connected T v.
Proof. apply bool_eq_iff. rewrite vote_ok_iff, prefixes_connected_iff. tauto. Qed.

Theorem spt_checkf_eq alts p T : spt_checkf alts p T = spt_check alts p T.
Proof.
  unfold spt_checkf, spt_check. f_equal.
  induction p as [|v p IH]; cbn; [reflexivity|]. rewrite vote_ok_eq, IH. reflexivity.
Qed.

Theorem spt_checkf_correct alts p T : spt_checkf alts p T = true <-> spt_spec alts p T.
Proof. rewrite spt_checkf_eq. apply spt_check_correct. Qed.

(* ------------------------------------------------------------------------------------------------ *)
(** * The specification only depends on the undirected graph *)

Lemma edges_wf_adj alts T :
  Forall (edge_wf alts) T <-> (forall a b, adj T a b -> In a alts /\ In b alts /\ a <> b).
Proof.
  rewrite Forall_forall. unfold edge_wf. split.
  - intros H a b [Hab|Hab]; apply H in Hab; cbn in Hab; intuition congruence.
  - intros H [a b] He. cbn. apply H. left; exact He.
Qed.

Lemma same_graph_sym T T' : same_graph T T' -> same_graph T' T.
Proof. intros [H1 H2]. split; [symmetry; exact H1|]. intros a b. symmetry. apply H2. Qed.

Lemma spanning_tree_same_graph alts T T' :
  same_graph T T' -> spanning_tree alts T -> spanning_tree alts T'.
Proof.
  intros [Hl Ha] (H1 & H2 & H3). split; [rewrite <- Hl; exact H1|]. split.
  - apply edges_wf_adj. intros a b Hab. apply Ha in Hab. revert a b Hab. apply edges_wf_adj. exact H2.
  - eapply connected_adj_ext; [exact Ha|exact H3].
Qed.

Lemma spt_spec_same_graph alts p T T' :
  same_graph T T' -> spt_spec alts p T -> spt_spec alts p T'.
Proof.
  intros Hs [H1 H2]. split; [eapply spanning_tree_same_graph; eauto|].
  intros v Hv k. eapply connected_adj_ext; [apply Hs|apply H2; exact Hv].
Qed.

Lemma same_graph_perm T T' : Permutation T T' -> same_graph T T'.
Proof.
  intros Hp. split; [apply Permutation_length; exact Hp|].
  assert (Hi : forall e, In e T <-> In e T').
  { intros e. split; apply Permutation_in; [exact Hp|apply Permutation_sym; exact Hp]. }
  intros a b. unfold adj. rewrite !Hi. tauto.
Qed.

Definition swap (e : edge) : edge := (snd e, fst e).
(* each edge kept or reversed *)
Definition reoriented (T T' : list edge) : Prop := Forall2 (fun e e' => e' = e \/ e' = swap e) T T'.

Lemma same_graph_reoriented T T' : reoriented T T' -> same_graph T T'.
Proof.
  intros H. split; [induction H; cbn; congruence|].
  induction H as [|e e' T T' He _ IH]; intros a b; [unfold adj; cbn; tauto|].
  specialize (IH a b). unfold adj in *. cbn [In].
  destruct e as [x y]. unfold swap in He. cbn in He.
  destruct He as [->| ->]; split; intros [[H|H]|[H|H]];
    try (inversion H; subst; clear H); tauto.
Qed.

Lemma reoriented_swap T : reoriented T (map swap T).
Proof. induction T; constructor; auto. Qed.

(* invariance of the checkers: order of the edge list and orientation of each edge are irrelevant *)
Theorem tree_check_same_graph alts T T' : same_graph T T' -> tree_check alts T = tree_check alts T'.
Proof.
  intros H. apply bool_eq_iff. rewrite !tree_check_correct.
  split; apply spanning_tree_same_graph; [exact H|apply same_graph_sym; exact H].
Qed.

Theorem spt_check_same_graph alts p T T' : same_graph T T' -> spt_check alts p T = spt_check alts p T'.
Proof.
  intros H. apply bool_eq_iff. rewrite !spt_check_correct.
  split; apply spt_spec_same_graph; [exact H|apply same_graph_sym; exact H].
Qed.

Theorem tree_check_perm alts T T' : Permutation T T' -> tree_check alts T = tree_check alts T'.
Proof. intros H. apply tree_check_same_graph, same_graph_perm, H. Qed.
Theorem tree_check_reoriented alts T T' : reoriented T T' -> tree_check alts T = tree_check alts T'.
Proof. intros H. apply tree_check_same_graph, same_graph_reoriented, H. Qed.
Theorem spt_check_perm alts p T T' : Permutation T T' -> spt_check alts p T = spt_check alts p T'.
Proof. intros H. apply spt_check_same_graph, same_graph_perm, H. Qed.
Theorem spt_check_reoriented alts p T T' : reoriented T T' -> spt_check alts p T = spt_check alts p T'.
Proof. intros H. apply spt_check_same_graph, same_graph_reoriented, H. Qed.

(* ------------------------------------------------------------------------------------------------ *)
(** * The enumeration of candidate trees *)

Lemma prod_choices_map_iff {A B : Type} (f : B -> list A) (xs : list B) (l : list A) :
  In l (prod_choices (map f xs)) <-> Forall2 (fun e x => In e (f x)) l xs.
Proof.
  revert l. induction xs as [|x xs IH]; intros l; cbn.
  - split.
    + intros [<-|[]]. constructor.
    + intros H. inversion H. left; reflexivity.
  - rewrite in_flat_map. split.
    + intros (e & He & Hl). apply in_map_iff in Hl. destruct Hl as (l' & <- & Hl').
      constructor; [exact He|apply IH; exact Hl'].
    + intros H. inversion H as [|e x' l' xs' He Hl']; subst.
      exists e. split; [exact He|]. apply in_map. apply IH. exact Hl'.
Qed.

Lemma parent_edges_iff alts x e :
  In e (parent_edges alts x) <-> snd e = x /\ In (fst e) alts /\ fst e <> x.
Proof.
  unfold parent_edges. rewrite in_map_iff. split.
  - intros (q & <- & Hq). apply filter_In in Hq. destruct Hq as [Hq Hn].
    apply negb_true_iff, N.eqb_neq in Hn. cbn. auto.
  - intros (H1 & H2 & H3). exists (fst e). split; [destruct e; cbn in *; subst; reflexivity|].
    apply filter_In. split; [exact H2|]. apply negb_true_iff, N.eqb_neq. exact H3.
Qed.

Lemma cand_aux alts rest T :
  Forall2 (fun e x => In e (parent_edges alts x)) T rest <->
  map snd T = rest /\ forall e, In e T -> In (fst e) alts /\ fst e <> snd e.
Proof.
  split.
  - intros H. induction H as [|e x T xs He _ IH]; [split; [reflexivity|intros e []]|].
    apply parent_edges_iff in He. destruct He as (H1 & H2 & H3). destruct IH as [IH1 IH2].
    split; [cbn; congruence|]. intros e' [<-|He']; [split; [exact H2|congruence]|auto].
  - intros [H1 H2]. subst rest.
    induction T as [|e T IH]; constructor.
    + apply parent_edges_iff. destruct (H2 e (or_introl eq_refl)). auto.
    + apply IH. intros e' He'. apply H2. right; exact He'.
Qed.

Lemma cand_trees_iff r rest T :
  In T (cand_trees (r :: rest)) <->
  map snd T = rest /\ forall e, In e T -> In (fst e) (r :: rest) /\ fst e <> snd e.
Proof. unfold cand_trees. rewrite prod_choices_map_iff. apply cand_aux. Qed.

(* every candidate accepted by the checker is a witness (trivially, by spt_check_correct);
   conversely every spanning tree has the same graph as some candidate: *)

(* a record of how a connected set was grown from R: each edge (p, x) attaches a new vertex x to an
   earlier vertex p *)
Inductive chain (T : list edge) : list N -> list edge -> Prop :=
| chain_nil R : chain T R []
| chain_cons R p x L : In p R -> ~ In x R -> adj T p x -> chain T (x :: R) L -> chain T R ((p, x) :: L).

Lemma grow_chain T fuel : forall R rest,
  NoDup (R ++ rest) -> grow fuel T R rest = [] ->
  exists L, Permutation (map snd L) rest /\ chain T R L.
Proof.
  induction fuel as [|f IH]; intros R rest Hnd Hg; cbn in Hg.
  - subst rest. exists []. split; constructor.
  - destruct (pick (near T R) rest) as [[x rest']|] eqn:Ep.
    + apply pick_some in Ep. destruct Ep as [Hn Hp].
      assert (Hnd' : NoDup (R ++ x :: rest')).
      { eapply Permutation_NoDup; [apply Permutation_app_head; exact Hp|exact Hnd]. }
      assert (HxR : ~ In x R).
      { intros HxR. apply NoDup_remove_2 in Hnd'. apply Hnd'. apply in_or_app. left; exact HxR. }
      apply near_iff in Hn. destruct Hn as [Hn|(q & Hq & Ha)]; [contradiction|].
      destruct (IH (x :: R) rest') as (L & HL & Hch).
      * cbn. eapply Permutation_NoDup; [apply Permutation_sym; apply Permutation_middle|exact Hnd'].
      * exact Hg.
      * exists ((q, x) :: L). split.
        -- cbn. eapply Permutation_trans; [apply perm_skip; exact HL|apply Permutation_sym; exact Hp].
        -- constructor; assumption.
    + subst rest. exists []. split; constructor.
Qed.

Lemma chain_edges T R L : chain T R L ->
  forall e, In e L -> adj T (fst e) (snd e) /\ In (fst e) (R ++ map snd L) /\ fst e <> snd e.
Proof.
  induction 1 as [R|R q x L Hq Hx Ha _ IH]; intros e He; [destruct He|].
  destruct He as [<-|He]; cbn [fst snd map].
  - split; [exact Ha|]. split; [apply in_or_app; left; exact Hq|]. intros ->. contradiction.
  - destruct (IH e He) as (H1 & H2 & H3). split; [exact H1|]. split; [|exact H3].
    apply in_app_or in H2. apply in_or_app. destruct H2 as [[<-|H2]|H2].
    + right; left; reflexivity.
    + left; exact H2.
    + right; right; exact H2.
Qed.

Lemma chain_snd_fresh T R L : chain T R L -> forall e, In e L -> ~ In (snd e) R.
Proof.
  induction 1 as [R|R q x L Hq Hx Ha _ IH]; intros e He; [destruct He|].
  destruct He as [<-|He]; cbn [snd]; [exact Hx|].
  intros Hin. apply (IH e He). right; exact Hin.
Qed.

Lemma edge_eq_dec (e e' : edge) : {e = e'} + {e <> e'}.
Proof. decide equality; apply N.eq_dec. Qed.

(* the element of T that realises the adjacency of a and b *)
Definition lit (T : list edge) (e : edge) : edge :=
  if in_dec edge_eq_dec e T then e else swap e.

Lemma lit_cases T e : lit T e = e \/ lit T e = swap e.
Proof. unfold lit. destruct (in_dec edge_eq_dec e T); auto. Qed.

Lemma lit_in T e : adj T (fst e) (snd e) -> In (lit T e) T.
Proof.
  unfold lit. destruct (in_dec edge_eq_dec e T) as [H|H]; [auto|].
  destruct e as [a b]. cbn. intros [H'|H']; [contradiction|exact H'].
Qed.

Lemma chain_lit_nodup T R L : chain T R L -> NoDup (map (lit T) L).
Proof.
  induction 1 as [R|R q x L Hq Hx Ha Hch IH]; cbn [map]; constructor; [|exact IH].
  intros Hin. apply in_map_iff in Hin. destruct Hin as ([q' x'] & Heq & He').
  pose proof (chain_snd_fresh _ _ _ Hch _ He') as Hfresh. cbn [snd] in Hfresh.
  destruct (lit_cases T (q', x')) as [E1|E1], (lit_cases T (q, x)) as [E2|E2];
    rewrite E1, E2 in Heq; unfold swap in Heq; cbn in Heq; inversion Heq; subst;
    apply Hfresh; (left; reflexivity) || (right; assumption).
Qed.

Theorem cand_trees_complete alts T :
  NoDup alts -> spanning_tree alts T -> exists T', In T' (cand_trees alts) /\ same_graph T T'.
Proof.
  intros Hnd (Hlen & Hwf & Hconn).
  destruct alts as [|r rest]; [discriminate|]. cbn in Hlen. injection Hlen as Hlen.
  (* the growth order *)
  assert (Hg : grow (length rest) T [r] rest = []).
  { apply grow_complete; [lia|discriminate|exact Hconn]. }
  destruct (grow_chain T _ [r] rest Hnd Hg) as (L & HLp & Hch).
  pose proof (chain_edges _ _ _ Hch) as Hed.
  assert (HlenL : length L = length T).
  { rewrite <- Hlen, <- (Permutation_length HLp), map_length. reflexivity. }
  (* L and T have the same graph *)
  assert (Hincl : incl T (map (lit T) L)).
  { apply NoDup_length_incl.
    - eapply chain_lit_nodup; exact Hch.
    - rewrite map_length. apply Nat.eq_le_incl. symmetry. exact HlenL.
    - intros e He. apply in_map_iff in He. destruct He as (e0 & <- & He0).
      apply lit_in. apply Hed. exact He0. }
  assert (HTL : forall a b, In (a, b) T -> adj L a b).
  { intros a b Hab. apply Hincl in Hab. apply in_map_iff in Hab. destruct Hab as ([q x] & Heq & He).
    destruct (lit_cases T (q, x)) as [E|E]; rewrite E in Heq; unfold swap in Heq; cbn in Heq;
      inversion Heq; subst; [left|right]; exact He. }
  assert (Hsame : forall a b, adj T a b <-> adj L a b).
  { intros a b. split.
    - intros [H|H]; [apply HTL; exact H|apply adj_sym; apply HTL; exact H].
    - intros [H|H]; [|apply adj_sym]; apply (Hed _ H). }
  (* reorder L along rest *)
  destruct (Permutation_map_inv snd L (Permutation_sym HLp)) as (L' & Hrest & HLL').
  exists L'. split.
  - apply cand_trees_iff. split; [symmetry; exact Hrest|].
    intros e He. assert (HeL : In e L) by (eapply Permutation_in; [apply Permutation_sym; exact HLL'|exact He]).
    destruct (Hed e HeL) as (_ & H2 & H3). split; [|exact H3].
    cbn in H2. destruct H2 as [<-|H2]; [left; reflexivity|right].
    eapply Permutation_in; [exact HLp|exact H2].
  - destruct (same_graph_perm _ _ HLL') as [Hl2 Ha2].
    split; [etransitivity; [symmetry; exact HlenL|exact Hl2]|].
    intros a b. rewrite Hsame. apply Ha2.
Qed.

(* ------------------------------------------------------------------------------------------------ *)
(** * The reference decider *)

Lemma spt_checkr_eq alts p T : spt_checkr alts p T = spt_checkf alts p T.
Proof. unfold spt_checkr, spt_checkf. apply andb_comm. Qed.

Theorem spt_checkr_correct alts p T : spt_checkr alts p T = true <-> spt_spec alts p T.
Proof. rewrite spt_checkr_eq. apply spt_checkf_correct. Qed.

Theorem spt_decide_sound alts p : spt_decide alts p = true -> SPT alts p.
Proof.
  unfold spt_decide. rewrite existsb_exists. intros (T & _ & HT).
  exists T. apply spt_checkr_correct. exact HT.
Qed.

Theorem spt_decide_complete alts p : NoDup alts -> SPT alts p -> spt_decide alts p = true.
Proof.
  intros Hnd (T & HT). destruct (cand_trees_complete alts T Hnd (proj1 HT)) as (T' & Hin & Hs).
  unfold spt_decide. apply existsb_exists. exists T'. split; [exact Hin|].
  apply spt_checkr_correct. eapply spt_spec_same_graph; eauto.
Qed.

Theorem spt_decide_correct alts p : NoDup alts -> (spt_decide alts p = true <-> SPT alts p).
Proof. intros Hnd. split; [apply spt_decide_sound|apply spt_decide_complete; exact Hnd]. Qed.

Lemma spt_decide_slow_eq alts p : spt_decide_slow alts p = spt_decide alts p.
Proof.
  unfold spt_decide_slow, spt_decide. induction (cand_trees alts) as [|T l IH]; cbn; [reflexivity|].
  rewrite spt_checkr_eq, spt_checkf_eq, IH. reflexivity.
Qed.

(* ------------------------------------------------------------------------------------------------ *)
(** * Invariance: storage order / multiplicities of the votes, order of the alternatives, relabelling *)

Lemma spt_spec_profile_incl alts p p' T :
  (forall v, In v p' -> In v p) -> spt_spec alts p T -> spt_spec alts p' T.
Proof. intros Hi [H1 H2]. split; [exact H1|]. intros v Hv. apply H2. auto. Qed.

(* the verdict only depends on the SET of votes: permuting, repeating, regrouping votes is irrelevant *)
Theorem spt_decide_profile_ext alts p p' :
  (forall v, In v p <-> In v p') -> spt_decide alts p = spt_decide alts p'.
Proof.
  intros He. unfold spt_decide. induction (cand_trees alts) as [|T l IH]; cbn; [reflexivity|].
  rewrite IH. f_equal. apply bool_eq_iff. rewrite !spt_checkr_correct.
  split; apply spt_spec_profile_incl; intros v; apply He.
Qed.

Theorem spt_decide_profile_perm alts p p' : Permutation p p' -> spt_decide alts p = spt_decide alts p'.
Proof.
  intros Hp. apply spt_decide_profile_ext. intros v.
  split; apply Permutation_in; [exact Hp|apply Permutation_sym; exact Hp].
Qed.

Lemma spanning_tree_alts_perm alts alts' T :
  Permutation alts alts' -> spanning_tree alts T -> spanning_tree alts' T.
Proof.
  intros Hp (H1 & H2 & H3). split; [rewrite <- (Permutation_length Hp); exact H1|]. split.
  - eapply Forall_impl; [|exact H2]. intros e (Ha & Hb & Hn).
    split; [eapply Permutation_in; eauto|]. split; [eapply Permutation_in; eauto|exact Hn].
  - eapply connected_perm; eauto.
Qed.

Lemma SPT_alts_perm alts alts' p : Permutation alts alts' -> SPT alts p -> SPT alts' p.
Proof.
  intros Hp (T & H1 & H2). exists T. split; [eapply spanning_tree_alts_perm; eauto|exact H2].
Qed.

Theorem spt_decide_alts_perm alts alts' p :
  NoDup alts -> Permutation alts alts' -> spt_decide alts p = spt_decide alts' p.
Proof.
  intros Hnd Hp. apply bool_eq_iff.
  rewrite (spt_decide_correct alts p Hnd), (spt_decide_correct alts' p (Permutation_NoDup Hp Hnd)).
  split; apply SPT_alts_perm; [exact Hp|apply Permutation_sym; exact Hp].
Qed.

(* relabelling *)
Definition mapE (f : N -> N) (T : list edge) : list edge := map (fun e => (f (fst e), f (snd e))) T.

Lemma adj_mapE f T a b : adj T a b -> adj (mapE f T) (f a) (f b).
Proof.
  unfold adj, mapE. intros [H|H]; [left|right];
    apply in_map_iff; eexists; (split; [|exact H]); reflexivity.
Qed.

Lemma path_map f T S a b : path_in T S a b -> path_in (mapE f T) (map f S) (f a) (f b).
Proof.
  induction 1 as [a Ha|a b c Ha Hab _ IH].
  - apply path_refl. apply in_map. exact Ha.
  - eapply path_step; [apply in_map; exact Ha|apply adj_mapE; exact Hab|exact IH].
Qed.

Lemma connected_map f T S : connected T S -> connected (mapE f T) (map f S).
Proof.
  intros Hc a' b' Ha' Hb'. apply in_map_iff in Ha'. apply in_map_iff in Hb'.
  destruct Ha' as (a & <- & Ha), Hb' as (b & <- & Hb). apply path_map. apply Hc; assumption.
Qed.

Lemma spt_spec_map f alts p T :
  (forall a b, In a alts -> In b alts -> f a = f b -> a = b) ->
  spt_spec alts p T -> spt_spec (map f alts) (map (map f) p) (mapE f T).
Proof.
  intros Hinj [(H1 & H2 & H3) H4]. split; [split; [|split]|].
  - unfold mapE. rewrite !map_length. exact H1.
  - rewrite Forall_forall in *. intros e' He'. apply in_map_iff in He'. destruct He' as (e & <- & He).
    destruct (H2 e He) as (Ha & Hb & Hn). unfold edge_wf. cbn [fst snd].
    split; [apply in_map; exact Ha|]. split; [apply in_map; exact Hb|].
    intros Heq. apply Hn. apply Hinj; assumption.
  - apply connected_map. exact H3.
  - intros v' Hv' k. apply in_map_iff in Hv'. destruct Hv' as (v & <- & Hv).
    rewrite firstn_map. apply connected_map. apply H4. exact Hv.
Qed.

Definition inv_on (f : N -> N) (U : list N) (b : N) : N :=
  match find (fun a => N.eqb (f a) b) U with Some a => a | None => b end.

Lemma inv_on_ok f U a : (forall x y, f x = f y -> x = y) -> In a U -> inv_on f U (f a) = a.
Proof.
  intros Hinj Ha. unfold inv_on. destruct (find (fun a0 => N.eqb (f a0) (f a)) U) as [a'|] eqn:Ef.
  - apply find_some in Ef. destruct Ef as [_ E]. apply N.eqb_eq in E. apply Hinj. exact E.
  - pose proof (find_none _ _ Ef a Ha) as E. cbn in E. rewrite N.eqb_refl in E. discriminate.
Qed.

Lemma map_inv_on f U l :
  (forall x y, f x = f y -> x = y) -> incl l U -> map (inv_on f U) (map f l) = l.
Proof.
  intros Hinj Hi. rewrite map_map. rewrite <- (map_id l) at 2. apply map_ext_in.
  intros a Ha. apply inv_on_ok; auto.
Qed.

Theorem SPT_relabel f alts p :
  (forall x y, f x = f y -> x = y) -> (SPT (map f alts) (map (map f) p) <-> SPT alts p).
Proof.
  intros Hinj. split.
  - intros (T' & HT'). set (U := alts ++ concat p). set (g := inv_on f U).
    exists (mapE g T').
    assert (Ha : map g (map f alts) = alts).
    { apply map_inv_on; [exact Hinj|]. intros x Hx. apply in_or_app. left; exact Hx. }
    assert (Hp : map (map g) (map (map f) p) = p).
    { rewrite map_map. rewrite <- (map_id p) at 2. apply map_ext_in. intros v Hv.
      apply map_inv_on; [exact Hinj|]. intros x Hx. apply in_or_app. right.
      apply in_concat. exists v. split; assumption. }
    rewrite <- Ha at 1. rewrite <- Hp. apply spt_spec_map; [|exact HT'].
    intros a' b' Ha' Hb' Heq. apply in_map_iff in Ha'. apply in_map_iff in Hb'.
    destruct Ha' as (a & <- & Ha0), Hb' as (b & <- & Hb0).
    unfold g in Heq. rewrite !inv_on_ok in Heq; auto; try (apply in_or_app; left; assumption).
    congruence.
  - intros (T & HT). exists (mapE f T). apply spt_spec_map; [|exact HT].
    intros a b _ _. apply Hinj.
Qed.

Lemma NoDup_map_injective (f : N -> N) l :
  (forall x y, f x = f y -> x = y) -> NoDup l -> NoDup (map f l).
Proof.
  intros Hinj. induction 1 as [|x l Hx _ IH]; cbn; constructor; [|exact IH].
  intros Hin. apply in_map_iff in Hin. destruct Hin as (y & Hy & Hyl). apply Hinj in Hy. subst. contradiction.
Qed.

Theorem spt_decide_relabel f alts p :
  (forall x y, f x = f y -> x = y) -> NoDup alts ->
  spt_decide (map f alts) (map (map f) p) = spt_decide alts p.
Proof.
  intros Hinj Hnd. apply bool_eq_iff.
  rewrite (spt_decide_correct alts p Hnd),
          (spt_decide_correct _ (map (map f) p) (NoDup_map_injective f alts Hinj Hnd)).
  apply SPT_relabel. exact Hinj.
Qed.

(* heredity in the votes: a sub-profile of a profile single-peaked on a tree is single-peaked on the same tree *)
Theorem SPT_subprofile alts p p' : (forall v, In v p' -> In v p) -> SPT alts p -> SPT alts p'.
Proof. intros Hi (T & HT). exists T. eapply spt_spec_profile_incl; eauto. Qed.

(* ------------------------------------------------------------------------------------------------ *)
(** * Sanity of the definition of spanning_tree: it is a minimally connected graph (every edge is a
      bridge, hence there is no cycle) *)

Lemma connected_edge_bound alts T :
  NoDup alts -> connected T alts -> length alts <= S (length T).
Proof.
  intros Hnd Hconn. destruct alts as [|r rest]; [cbn; lia|]. cbn. apply le_n_S.
  assert (Hg : grow (length rest) T [r] rest = []).
  { apply grow_complete; [lia|discriminate|exact Hconn]. }
  destruct (grow_chain T _ [r] rest Hnd Hg) as (L & HLp & Hch).
  pose proof (chain_edges _ _ _ Hch) as Hed.
  assert (Hl : length rest = length (map (lit T) L)).
  { rewrite map_length, <- (Permutation_length HLp), map_length. reflexivity. }
  rewrite Hl.
  apply NoDup_incl_length; [eapply chain_lit_nodup; exact Hch|].
  intros e He. apply in_map_iff in He. destruct He as (e0 & <- & He0).
  apply lit_in. apply Hed. exact He0.
Qed.

Theorem spanning_tree_minimal alts T1 e T2 :
  NoDup alts -> spanning_tree alts (T1 ++ e :: T2) -> ~ connected (T1 ++ T2) alts.
Proof.
  intros Hnd (Hlen & _ & _) Hc. apply (connected_edge_bound _ _ Hnd) in Hc.
  rewrite app_length in *. cbn in Hlen. lia.
Qed.
