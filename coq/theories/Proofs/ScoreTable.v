(* Proofs/ScoreTable.v — generic facts about the score tables of Model/Scoring.v:
   what a table holds after a sequence of `scores[a] += s` updates, and which keys tbl_winners returns. *)
From Coq Require Import List Arith NArith Bool Lia Permutation.
From PrefVerif Require Import Lib.Val Model.Scoring.
Import ListNotations.

Lemma memN_In : forall a l, memN a l = true <-> In a l.
Proof.
  unfold memN; intros a l; rewrite existsb_exists; split.
  - intros [x [H1 H2]]. apply N.eqb_eq in H2. subst. exact H1.
  - intros H. exists a. split; [exact H|apply N.eqb_refl].
Qed.

Lemma memN_false : forall a l, memN a l = false <-> ~ In a l.
Proof.
  intros a l. rewrite <- memN_In. destruct (memN a l); split; intro H; try congruence; try discriminate.
Qed.

Section TableFacts.
  Context {S : Type}.
  Variable add : S -> S -> S.
  Variable zero : S.
  Variable leb : S -> S -> bool.
  Hypothesis add_assoc : forall x y z, add x (add y z) = add (add x y) z.
  Hypothesis add_comm : forall x y, add x y = add y x.
  Hypothesis add_0_l : forall x, add zero x = x.
  Hypothesis leb_refl : forall x, leb x x = true.
  Hypothesis leb_trans : forall x y z, leb x y = true -> leb y z = true -> leb x z = true.
  Hypothesis leb_total : forall x y, leb x y = true \/ leb y x = true.

  Definition lookup (t : list (N * S)) (a : N) : S :=
    match find (fun e => N.eqb (fst e) a) t with Some e => snd e | None => zero end.

  (* the sum of the increments addressed to a *)
  Fixpoint total (a : N) (evs : list (N * S)) : S :=
    match evs with
    | [] => zero
    | e :: r => if N.eqb (fst e) a then add (snd e) (total a r) else total a r
    end.

  Lemma add_0_r : forall x, add x zero = x.
  Proof. intro x. rewrite add_comm. apply add_0_l. Qed.

  Lemma total_app : forall a l1 l2, total a (l1 ++ l2) = add (total a l1) (total a l2).
  Proof.
    intros a l1 l2. induction l1 as [|e r IH]; simpl.
    - symmetry. apply add_0_l.
    - destruct (N.eqb (fst e) a); [rewrite IH; apply add_assoc|exact IH].
  Qed.

  Lemma total_notin : forall a l, ~ In a (map fst l) -> total a l = zero.
  Proof.
    intros a l. induction l as [|e r IH]; simpl; intro H; [reflexivity|].
    destruct (N.eqb_spec (fst e) a) as [E|E].
    - exfalso. apply H. left. exact E.
    - apply IH. intro H'. apply H. right. exact H'.
  Qed.

  Lemma lookup_nil : forall a, lookup [] a = zero.
  Proof. reflexivity. Qed.

  Lemma lookup_cons : forall c x t a,
    lookup ((c, x) :: t) a = if N.eqb c a then x else lookup t a.
  Proof. intros. unfold lookup. simpl. destruct (N.eqb c a); reflexivity. Qed.

  Lemma lookup_tbl_add : forall t a s b,
    lookup (tbl_add add zero t a s) b = if N.eqb a b then add (lookup t b) s else lookup t b.
  Proof.
    induction t as [|[c x] t IH]; intros a s b; simpl.
    - rewrite lookup_cons, lookup_nil. reflexivity.
    - destruct (N.eqb_spec c a) as [E|E].
      + subst c. rewrite !lookup_cons. destruct (N.eqb a b); reflexivity.
      + rewrite !lookup_cons. destruct (N.eqb_spec c b) as [E2|E2].
        * subst c. destruct (N.eqb_spec a b) as [E3|E3]; [congruence|reflexivity].
        * apply IH.
  Qed.

  Lemma lookup_tbl_adds : forall evs t b,
    lookup (tbl_adds add zero t evs) b = add (lookup t b) (total b evs).
  Proof.
    induction evs as [|e r IH]; intros t b; simpl.
    - symmetry. apply add_0_r.
    - unfold tbl_adds in *. simpl. rewrite IH, lookup_tbl_add.
      destruct (N.eqb (fst e) b); [symmetry; apply add_assoc|reflexivity].
  Qed.

  Lemma keys_tbl_add : forall t a s b,
    In b (map fst (tbl_add add zero t a s)) <-> In b (map fst t) \/ b = a.
  Proof.
    induction t as [|[c x] t IH]; intros a s b; simpl.
    - intuition.
    - destruct (N.eqb_spec c a) as [E|E]; simpl.
      + subst c. intuition.
      + rewrite IH. intuition.
  Qed.

  Lemma nodup_tbl_add : forall t a s,
    NoDup (map fst t) -> NoDup (map fst (tbl_add add zero t a s)).
  Proof.
    induction t as [|[c x] t IH]; intros a s H; simpl.
    - constructor; [intros []|constructor].
    - inversion H as [|? ? Hn Hr]; subst. destruct (N.eqb_spec c a) as [E|E]; simpl.
      + constructor; assumption.
      + constructor; [|apply IH; exact Hr].
        rewrite keys_tbl_add. intros [H1|H1]; [apply Hn; exact H1|congruence].
  Qed.

  Lemma keys_tbl_adds : forall evs t b,
    In b (map fst (tbl_adds add zero t evs)) <-> In b (map fst t) \/ In b (map fst evs).
  Proof.
    induction evs as [|e r IH]; intros t b; simpl.
    - intuition.
    - unfold tbl_adds in *. simpl. rewrite IH, keys_tbl_add. intuition.
  Qed.

  Lemma nodup_tbl_adds : forall evs t,
    NoDup (map fst t) -> NoDup (map fst (tbl_adds add zero t evs)).
  Proof.
    induction evs as [|e r IH]; intros t H; simpl; [exact H|].
    unfold tbl_adds in *. simpl. apply IH. apply nodup_tbl_add. exact H.
  Qed.

  Lemma total_const : forall a s l, NoDup l ->
    total a (map (fun x => (x, s)) l) = if memN a l then s else zero.
  Proof.
    intros a s l. induction l as [|x r IH]; intro H; simpl; [reflexivity|].
    inversion H as [|? ? Hx Hr]; subst. specialize (IH Hr).
    unfold memN in *. simpl. rewrite (N.eqb_sym a x). destruct (N.eqb_spec x a) as [E|E]; simpl.
    - subst x. rewrite IH. assert (M : existsb (N.eqb a) r = false) by (apply memN_false; exact Hx).
      rewrite M. apply add_0_r.
    - exact IH.
  Qed.

  (* sums over the voters of a full profile *)
  Definition sumS (l : list S) : S := fold_right add zero l.

  Lemma sumS_app : forall l1 l2, sumS (l1 ++ l2) = add (sumS l1) (sumS l2).
  Proof.
    intros l1 l2. induction l1 as [|x r IH]; simpl; [symmetry; apply add_0_l|].
    rewrite IH. apply add_assoc.
  Qed.

  Lemma sumS_perm : forall l1 l2, Permutation l1 l2 -> sumS l1 = sumS l2.
  Proof.
    intros l1 l2 H. induction H; simpl.
    - reflexivity.
    - rewrite IHPermutation. reflexivity.
    - rewrite !add_assoc. rewrite (add_comm y x). reflexivity.
    - congruence.
  Qed.

  Lemma map_repeat' : forall {A B} (f : A -> B) x n, map f (repeat x n) = repeat (f x) n.
  Proof. intros A B f x n. induction n; simpl; [reflexivity|rewrite IHn; reflexivity]. Qed.

  (* accumulate over multiplicity.items() = sum over the expanded profile *)
  Lemma total_profile : forall (ev : order -> N -> list (N * S)) (g : order -> S) p a,
    (forall om, In om p ->
       total a (ev (fst om) (snd om)) = sumS (repeat (g (fst om)) (N.to_nat (snd om)))) ->
    total a (flat_map (fun om => ev (fst om) (snd om)) p) = sumS (map g (expand p)).
  Proof.
    intros ev g p a. induction p as [|om p IH]; intro H; [reflexivity|].
    simpl flat_map. rewrite total_app.
    change (expand (om :: p)) with (repeat (fst om) (N.to_nat (snd om)) ++ expand p).
    rewrite map_app, sumS_app, map_repeat'. rewrite IH by (intros; apply H; right; assumption).
    rewrite H by (left; reflexivity). reflexivity.
  Qed.

  (* ---- max() and the comprehension ---- *)
  Lemma best_of_ge : forall l x,
    leb x (best_of leb x l) = true /\ forall y, In y l -> leb y (best_of leb x l) = true.
  Proof.
    induction l as [|y l IH]; intros x; simpl.
    - split; [apply leb_refl|intros ? []].
    - unfold best_of in *. simpl.
      destruct (IH (if leb x y then y else x)) as [H1 H2].
      destruct (leb x y) eqn:E.
      + split; [eapply leb_trans; eassumption|].
        intros z [Hz|Hz]; [subst; exact H1|apply H2; exact Hz].
      + split; [exact H1|].
        intros z [Hz|Hz]; [|apply H2; exact Hz]. subst z.
        destruct (leb_total x y) as [C|C]; [congruence|]. eapply leb_trans; eassumption.
  Qed.

  Lemma best_of_in : forall l x, In (best_of leb x l) (x :: l).
  Proof.
    induction l as [|y l IH]; intros x; simpl.
    - left; reflexivity.
    - unfold best_of in *. simpl. destruct (IH (if leb x y then y else x)) as [H|H].
      + destruct (leb x y); [right; left|left]; exact H.
      + right; right; exact H.
  Qed.

  Lemma lookup_In : forall t e, NoDup (map fst t) -> In e t -> lookup t (fst e) = snd e.
  Proof.
    induction t as [|[c x] t IH]; intros e Hn Hi; [destruct Hi|].
    simpl in Hn. inversion Hn as [|? ? Hc Hr]; subst. rewrite lookup_cons. destruct Hi as [Hi|Hi].
    - subst e. simpl. rewrite N.eqb_refl. reflexivity.
    - destruct (N.eqb_spec c (fst e)) as [E|E].
      + exfalso. apply Hc. rewrite E. apply in_map. exact Hi.
      + apply IH; assumption.
  Qed.

  Lemma in_keys_entry : forall (t : list (N * S)) a, In a (map fst t) -> exists e, In e t /\ fst e = a.
  Proof.
    intros t a H. apply in_map_iff in H. destruct H as [e [H1 H2]]. exists e. split; assumption.
  Qed.

  Definition maximal (sc : N -> S) (P : N -> Prop) (a : N) : Prop :=
    P a /\ forall b, P b -> leb (sc b) (sc a) = true.

  Theorem tbl_winners_spec : forall t,
    NoDup (map fst t) -> t <> [] ->
    exists w, tbl_winners leb t = Ok w /\
              forall a, In a w <-> maximal (lookup t) (fun x => In x (map fst t)) a.
  Proof.
    intros t Hn Hne. destruct t as [|[k0 x0] t']; [congruence|].
    remember ((k0, x0) :: t') as t eqn:Et.
    assert (Hw : tbl_winners leb t =
                 Ok (map fst (filter (fun e => leb (best_of leb x0 (map snd t')) (snd e)
                                               && leb (snd e) (best_of leb x0 (map snd t'))) t))).
    { rewrite Et. reflexivity. }
    eexists. split; [exact Hw|].
    set (b := best_of leb x0 (map snd t')).
    assert (Hge : forall e, In e t -> leb (snd e) b = true).
    { intros e He. rewrite Et in He. destruct (best_of_ge (map snd t') x0) as [G1 G2]. destruct He as [He|He].
      - subst e. exact G1.
      - apply G2. apply in_map. exact He. }
    assert (Hin : exists e, In e t /\ snd e = b).
    { destruct (best_of_in (map snd t') x0) as [H|H].
      - exists (k0, x0). split; [rewrite Et; left; reflexivity|exact H].
      - apply in_map_iff in H. destruct H as [e [H1 H2]]. exists e. split; [rewrite Et; right; exact H2|exact H1]. }
    intros a. unfold maximal. split.
    - intros Ha. apply in_map_iff in Ha. destruct Ha as [e [Ha He]]. apply filter_In in He.
      destruct He as [He Hb]. apply andb_prop in Hb. destruct Hb as [Hb _]. subst a. split.
      + apply in_map. exact He.
      + intros c Hc. destruct (in_keys_entry t c Hc) as [e' [He' Hf]]. subst c.
        rewrite !lookup_In by assumption. eapply leb_trans; [apply Hge; exact He'|exact Hb].
    - intros [Ha Hmax]. destruct (in_keys_entry t a Ha) as [e [He Hf]]. subst a.
      apply in_map. apply filter_In. split; [exact He|].
      destruct Hin as [e' [He' Hb]]. apply andb_true_intro. split.
      + assert (Hk : In (fst e') (map fst t)) by (apply in_map; exact He').
        specialize (Hmax _ Hk). rewrite !lookup_In in Hmax by assumption. fold b. rewrite <- Hb. exact Hmax.
      + apply Hge. exact He.
  Qed.

  Lemma maximal_ext : forall (sc sc' : N -> S) (K K' : N -> Prop) a,
    (forall b, sc b = sc' b) -> (forall b, K b <-> K' b) -> (maximal sc K a <-> maximal sc' K' a).
  Proof.
    intros sc sc' K K' a Hs Hk. unfold maximal. rewrite Hk. split; intros [H1 H2]; split; try exact H1; intros b Hb.
    - rewrite <- !Hs. apply H2. apply Hk. exact Hb.
    - rewrite !Hs. apply H2. apply Hk. exact Hb.
  Qed.
  (* the winners of a table built by a sequence of updates *)
  Theorem table_winners : forall t0 evs,
    NoDup (map fst t0) -> (t0 <> [] \/ evs <> []) ->
    exists w, tbl_winners leb (tbl_adds add zero t0 evs) = Ok w /\
      forall a, In a w <->
        maximal (fun x => add (lookup t0 x) (total x evs))
                (fun x => In x (map fst t0) \/ In x (map fst evs)) a.
  Proof.
    intros t0 evs Hn Hne.
    assert (Hne' : tbl_adds add zero t0 evs <> []).
    { intro E. assert (K := keys_tbl_adds evs t0). rewrite E in K. simpl in K.
      destruct Hne as [H|H].
      - destruct t0 as [|e t]; [congruence|]. apply (K (fst e)). left. left. reflexivity.
      - destruct evs as [|e r]; [congruence|]. apply (K (fst e)). right. left. reflexivity. }
    destruct (tbl_winners_spec _ (nodup_tbl_adds evs t0 Hn) Hne') as [w [Hw Hs]].
    exists w. split; [exact Hw|]. intros a. rewrite Hs. apply maximal_ext.
    - intros b. apply lookup_tbl_adds.
    - intros b. apply keys_tbl_adds.
  Qed.

  (* when exactly the keys have a positive score, maximising over the keys = maximising over any superset *)
  Lemma maximal_superset : forall (sc : N -> S) (K U : N -> Prop) a,
    (forall b, K b \/ ~ K b) -> (exists c, K c) -> (forall b, K b -> U b) ->
    (forall b, K b -> leb (sc b) zero = false) -> (forall b, ~ K b -> sc b = zero) ->
    (maximal sc K a <-> maximal sc U a).
  Proof.
    intros sc K U a Hdec [c Hc] Hsub Hpos Hzero. unfold maximal. split.
    - intros [Ha Hm]. split; [apply Hsub; exact Ha|]. intros b Hb. destruct (Hdec b) as [Kb|Kb].
      + apply Hm. exact Kb.
      + rewrite (Hzero b Kb). destruct (leb_total zero (sc a)) as [T|T]; [exact T|].
        rewrite (Hpos a Ha) in T. discriminate.
    - intros [Ha Hm]. assert (Ka : K a).
      { destruct (Hdec a) as [Ka|Ka]; [exact Ka|]. exfalso.
        assert (T := Hm c (Hsub c Hc)). rewrite (Hzero a Ka) in T. rewrite (Hpos c Hc) in T. discriminate. }
      split; [exact Ka|]. intros b Hb. apply Hm. apply Hsub. exact Hb.
  Qed.

End TableFacts.
