(* Proofs/Deletion.v — specifications and lemmas for Model/Deletion.v (C12; reused by C15).

   SPECIFICATIONS (Prop)
     AltDel alts p D     the profile p without the alternatives of D is weakly single-peaked (SPw of Proofs/SP.v)
                         on the remaining alternatives:   SPw (keepN D alts) (delete_alts D p)
     VotDel alts p V     the profile p without the orders at the indices of V is weakly single-peaked on alts:
                                                          SPw alts (remove_idx V p)
   MAIN RESULTS
     alt_del_ok_correct, vot_del_ok_correct       the boolean tests decide the specifications
     alt_del_bound, vot_del_bound                 any sufficient deletion set bounds the reference optimum
     min_alt_del_correct, min_vot_del_correct     the reference optimisers return the minimum
     cert_alt_correct, cert_vot_correct           the certificate checkers accept exactly the valid certificates
     cert_alt_valid_bound, cert_vot_valid_bound   a valid certificate of size k implies optimum <= k
     opt_restrict_mono_alt / _vot                 restriction to a subset of the alternatives cannot increase the optimum
     opt_subprofile_mono_alt / _vot               removing orders cannot increase the optimum
     invariance under reordering of the profile and injective relabelling *)
From Coq Require Import List Arith NArith Bool Lia Permutation.
From PrefVerif Require Import Lib.Val Lib.Perms Lib.Contig Lib.Subsets Model.SP Model.Deletion Proofs.SP.
Import ListNotations.

(* ---------------------------------------------------------------------------------------------- *)
(* specifications                                                                                  *)

Definition AltDel (alts : list N) (p : list order) (D : list N) : Prop :=
  SPw (keepN D alts) (delete_alts D p).
Definition VotDel (alts : list N) (p : list order) (V : list nat) : Prop :=
  SPw alts (remove_idx V p).

(* ---------------------------------------------------------------------------------------------- *)
(* 1. small facts                                                                                  *)

Lemma mem_nat_In i l : mem_nat i l = true <-> In i l.
Proof.
  unfold mem_nat. rewrite existsb_exists. split.
  - intros (x & Hin & E). apply Nat.eqb_eq in E. now subst.
  - intros H. exists i. split; [assumption|apply Nat.eqb_refl].
Qed.

Lemma mem_nat_false i l : mem_nat i l = false <-> ~ In i l.
Proof. rewrite <- mem_nat_In. destruct (mem_nat i l); intuition congruence. Qed.

Lemma nodup_nat_correct l : nodup_nat l = true <-> NoDup l.
Proof.
  induction l as [|a r IH]; simpl.
  - split; [constructor|reflexivity].
  - rewrite andb_true_iff, negb_true_iff, mem_nat_false, IH. split.
    + intros [H1 H2]. now constructor.
    + intros H. inversion H; subst. auto.
Qed.

Lemma filter_filter_and {T} (f g : T -> bool) l :
  filter f (filter g l) = filter (fun a => g a && f a) l.
Proof.
  induction l as [|a l IH]; simpl; [reflexivity|].
  destruct (g a); simpl; [destruct (f a)|]; now rewrite IH.
Qed.

Lemma filter_comm {T} (f g : T -> bool) l : filter f (filter g l) = filter g (filter f l).
Proof. rewrite !filter_filter_and. apply filter_ext. intros a. apply andb_comm. Qed.

Lemma keepN_In D l a : In a (keepN D l) <-> In a l /\ ~ In a D.
Proof. unfold keepN. rewrite filter_In, negb_true_iff, memN_false. reflexivity. Qed.

Lemma keepN_NoDup D l : NoDup l -> NoDup (keepN D l).
Proof. apply NoDup_filter. Qed.

Lemma keepN_ext D D' l : (forall a, In a l -> (In a D <-> In a D')) -> keepN D l = keepN D' l.
Proof.
  intros H. unfold keepN. apply filter_ext_in. intros a Ha. f_equal.
  apply eq_true_iff_eq. rewrite !memN_In. now apply H.
Qed.

Lemma keepN_all l : keepN l l = [].
Proof.
  unfold keepN. assert (H : forall l', incl l' l -> filter (fun a => negb (memN a l)) l' = []).
  { induction l' as [|a r IH]; intros Hi; [reflexivity|]. simpl.
    assert (E : memN a l = true) by (apply memN_In; apply Hi; now left).
    rewrite E. simpl. apply IH. intros x Hx. apply Hi. now right. }
  apply H. apply incl_refl.
Qed.

(* membership in the remaining alternatives *)
Lemma memN_keepN D alts a : In a alts -> memN a (keepN D alts) = negb (memN a D).
Proof. intros Ha. unfold keepN. now apply memN_filter. Qed.

Lemma restrict_alts_keepN D alts : restrict_alts (keepN D alts) alts = keepN D alts.
Proof.
  unfold restrict_alts. unfold keepN at 2. apply filter_ext_in. intros a Ha. now apply memN_keepN.
Qed.

(* deleting D = restricting to the remaining alternatives (for orders over alts) *)
Lemma delete_order_restrict D alts o : incl (concat o) alts ->
  delete_order D o = restrict_order (keepN D alts) o.
Proof.
  intros Hi. unfold delete_order, restrict_order. f_equal. apply map_ext_in. intros c Hc.
  unfold keepN at 1. apply filter_ext_in. intros a Ha. symmetry. apply memN_keepN.
  apply Hi. apply in_concat. exists c. auto.
Qed.

Lemma complete_on_incl alts o : complete_on alts o -> incl (concat o) alts.
Proof. intros (_ & _ & H) a Ha. now apply H. Qed.

Lemma delete_alts_restrict D alts p : Forall (complete_on alts) p ->
  delete_alts D p = map (restrict_order (keepN D alts)) p.
Proof.
  intros Hc. unfold delete_alts. apply map_ext_in. intros o Ho. apply delete_order_restrict.
  apply complete_on_incl. rewrite Forall_forall in Hc. now apply Hc.
Qed.

Lemma complete_on_delete D alts p : Forall (complete_on alts) p ->
  Forall (complete_on (keepN D alts)) (delete_alts D p).
Proof.
  intros Hc. rewrite (delete_alts_restrict D alts p Hc). rewrite Forall_forall in *.
  intros o' Ho'. apply in_map_iff in Ho'. destruct Ho' as (o & <- & Ho).
  pose proof (complete_on_restrict (keepN D alts) alts o (Hc o Ho)) as H.
  now rewrite restrict_alts_keepN in H.
Qed.

Lemma delete_order_ext D D' alts o : incl (concat o) alts ->
  (forall a, In a alts -> (In a D <-> In a D')) -> delete_order D o = delete_order D' o.
Proof.
  intros Hi H. unfold delete_order. f_equal. apply map_ext_in. intros c Hc. apply keepN_ext.
  intros a Ha. apply H. apply Hi. apply in_concat. exists c. auto.
Qed.

(* ---------------------------------------------------------------------------------------------- *)
(* 2. alternative deletion: the boolean test, the bound, the optimum                                *)

Theorem alt_del_ok_correct alts p D : NoDup alts -> Forall (complete_on alts) p ->
  (alt_del_ok alts p D = true <-> AltDel alts p D).
Proof.
  intros Hnd Hc. unfold alt_del_ok, AltDel. apply spw_decide_correct.
  - now apply keepN_NoDup.
  - now apply complete_on_delete.
Qed.

Lemma alt_del_ok_ext alts p D D' : Forall (complete_on alts) p ->
  (forall a, In a alts -> (In a D <-> In a D')) -> alt_del_ok alts p D = alt_del_ok alts p D'.
Proof.
  intros Hc H. unfold alt_del_ok. rewrite (keepN_ext D D' alts H). f_equal.
  unfold delete_alts. apply map_ext_in. intros o Ho. apply (delete_order_ext D D' alts); [|assumption].
  apply complete_on_incl. rewrite Forall_forall in Hc. now apply Hc.
Qed.

Lemma spw_decide_nil p : spw_decide [] p = true.
Proof.
  unfold spw_decide. simpl. rewrite orb_false_r. unfold sp_axis_profile.
  apply forallb_forall. intros o _. reflexivity.
Qed.

Lemma alt_del_ok_all alts p : alt_del_ok alts p alts = true.
Proof. unfold alt_del_ok. rewrite keepN_all. apply spw_decide_nil. Qed.

(* the normal form of a deletion set: the alternatives of alts that belong to D, in the order of alts *)
Definition norm_set (alts D : list N) : list N := filter (fun a => memN a D) alts.

Lemma norm_set_sublist alts D : sublist (norm_set alts D) alts.
Proof. apply sublist_filter. Qed.

Lemma norm_set_length alts D : NoDup alts -> length (norm_set alts D) <= length D.
Proof.
  intros Hnd. apply NoDup_incl_length; [now apply NoDup_filter|].
  intros a Ha. apply filter_In in Ha. apply memN_In. tauto.
Qed.

Lemma norm_set_same alts D a : In a alts -> (In a (norm_set alts D) <-> In a D).
Proof. intros Ha. unfold norm_set. rewrite filter_In, memN_In. tauto. Qed.

Lemma alt_del_k_intro alts p D : sublist D alts -> alt_del_ok alts p D = true ->
  alt_del_k alts p (length D) = true.
Proof.
  intros Hs Hok. unfold alt_del_k. apply existsb_exists. exists D. split; [|assumption].
  apply subsets_k_iff. auto.
Qed.

(* any sufficient set of alternatives (even with repetitions or foreign elements) bounds the optimum *)
Theorem alt_del_bound alts p D : NoDup alts -> Forall (complete_on alts) p ->
  alt_del_ok alts p D = true -> min_alt_del alts p <= length D.
Proof.
  intros Hnd Hc Hok. pose (D0 := norm_set alts D).
  assert (H0 : alt_del_ok alts p D0 = true).
  { rewrite <- Hok. apply alt_del_ok_ext; [assumption|]. intros a Ha. now apply norm_set_same. }
  apply Nat.le_trans with (length D0); [|now apply norm_set_length].
  unfold min_alt_del. apply least_le. apply alt_del_k_intro; [apply norm_set_sublist|assumption].
Qed.

Lemma min_alt_del_le alts p : min_alt_del alts p <= length alts.
Proof. apply least_bound. Qed.

Lemma min_alt_del_witness alts p : exists D,
  sublist D alts /\ length D = min_alt_del alts p /\ alt_del_ok alts p D = true.
Proof.
  assert (H : alt_del_k alts p (min_alt_del alts p) = true).
  { unfold min_alt_del. apply least_true. exists (length alts). split; [lia|].
    apply alt_del_k_intro; [apply sublist_refl|apply alt_del_ok_all]. }
  unfold alt_del_k in H. apply existsb_exists in H. destruct H as (D & HD & Hok).
  apply subsets_k_iff in HD. exists D. tauto.
Qed.

Theorem min_alt_del_correct alts p k : NoDup alts -> Forall (complete_on alts) p ->
  (min_alt_del alts p = k <->
   (exists D, NoDup D /\ incl D alts /\ length D = k /\ AltDel alts p D) /\
   (forall D', length D' < k -> ~ AltDel alts p D')).
Proof.
  intros Hnd Hc. split.
  - intros <-. split.
    + destruct (min_alt_del_witness alts p) as (D & Hs & Hl & Hok). exists D.
      split; [eapply sublist_NoDup; eauto|]. split; [now apply sublist_incl|]. split; [assumption|].
      now apply alt_del_ok_correct.
    + intros D' Hlt HD'. apply alt_del_ok_correct in HD'; [|assumption|assumption].
      apply alt_del_bound in HD'; [|assumption|assumption]. lia.
  - intros [(D & _ & _ & Hl & HD) Hmin].
    apply alt_del_ok_correct in HD; [|assumption|assumption].
    apply alt_del_bound in HD; [|assumption|assumption].
    destruct (min_alt_del_witness alts p) as (D1 & _ & Hl1 & Hok1).
    destruct (Nat.eq_dec (min_alt_del alts p) k) as [|Hne]; [assumption|]. exfalso.
    apply (Hmin D1); [lia|]. now apply alt_del_ok_correct.
Qed.

(* ---------------------------------------------------------------------------------------------- *)
(* 3. voter deletion: removing the orders at a set of indices                                      *)

Lemma remove_idx_from_ext V V' i p :
  (forall j, i <= j < i + length p -> mem_nat j V = mem_nat j V') ->
  remove_idx_from V i p = remove_idx_from V' i p.
Proof.
  revert i. induction p as [|o r IH]; intros i H; [reflexivity|]. simpl in *.
  rewrite (H i) by lia. rewrite (IH (S i)); [reflexivity|]. intros j Hj. apply H. lia.
Qed.

Lemma remove_idx_from_sublist V i p : sublist (remove_idx_from V i p) p.
Proof.
  revert i. induction p as [|o r IH]; intros i; simpl; [apply sl_nil|].
  destruct (mem_nat i V); [apply sl_skip|apply sl_take]; apply IH.
Qed.

Lemma remove_idx_sublist V p : sublist (remove_idx V p) p.
Proof. apply remove_idx_from_sublist. Qed.

Lemma remove_idx_from_all V i p :
  (forall j, i <= j < i + length p -> mem_nat j V = true) -> remove_idx_from V i p = [].
Proof.
  revert i. induction p as [|o r IH]; intros i H; [reflexivity|]. simpl in *.
  rewrite (H i) by lia. apply IH. intros j Hj. apply H. lia.
Qed.

Lemma remove_idx_from_map (g : order -> order) V i p :
  remove_idx_from V i (map g p) = map g (remove_idx_from V i p).
Proof.
  revert i. induction p as [|o r IH]; intros i; [reflexivity|]. simpl.
  destruct (mem_nat i V); simpl; now rewrite IH.
Qed.

(* number of removed orders *)
Lemma remove_idx_from_length V i p :
  length (remove_idx_from V i p) + length (filter (fun j => mem_nat j V) (seq i (length p))) = length p.
Proof.
  revert i. induction p as [|o r IH]; intros i; [reflexivity|]. simpl.
  destruct (mem_nat i V); simpl; specialize (IH (S i)); lia.
Qed.

Lemma sublist_Forall {T} (P : T -> Prop) (s l : list T) : sublist s l -> Forall P l -> Forall P s.
Proof.
  intros Hs Hl. rewrite Forall_forall in *. intros x Hx. apply Hl. eapply sublist_incl; eauto.
Qed.

Theorem vot_del_ok_correct alts p V : NoDup alts -> Forall (complete_on alts) p ->
  (vot_del_ok alts p V = true <-> VotDel alts p V).
Proof.
  intros Hnd Hc. unfold vot_del_ok, VotDel. apply spw_decide_correct; [assumption|].
  eapply sublist_Forall; [apply remove_idx_sublist|assumption].
Qed.

Lemma perms_nonempty {T} (l : list T) : perms l <> [].
Proof.
  intros E. assert (H : In l (perms l)) by (apply perms_iff; apply Permutation_refl).
  rewrite E in H. contradiction.
Qed.

Lemma spw_decide_no_orders alts : spw_decide alts [] = true.
Proof.
  unfold spw_decide. destruct (perms alts) as [|a r] eqn:E; [now apply perms_nonempty in E|reflexivity].
Qed.

Definition norm_idx (n : nat) (V : list nat) : list nat := filter (fun j => mem_nat j V) (seq 0 n).

Lemma norm_idx_sublist n V : sublist (norm_idx n V) (seq 0 n).
Proof. apply sublist_filter. Qed.

Lemma norm_idx_length n V : length (norm_idx n V) <= length V.
Proof.
  apply NoDup_incl_length; [apply NoDup_filter; apply seq_NoDup|].
  intros a Ha. apply filter_In in Ha. apply mem_nat_In. tauto.
Qed.

Lemma remove_idx_norm V p : remove_idx (norm_idx (length p) V) p = remove_idx V p.
Proof.
  apply remove_idx_from_ext. intros j Hj. apply eq_true_iff_eq.
  unfold norm_idx. rewrite !mem_nat_In, filter_In, in_seq, mem_nat_In. intuition lia.
Qed.

Lemma vot_del_ok_all alts p : vot_del_ok alts p (seq 0 (length p)) = true.
Proof.
  unfold vot_del_ok, remove_idx. rewrite remove_idx_from_all; [apply spw_decide_no_orders|].
  intros j Hj. apply mem_nat_In. apply in_seq. lia.
Qed.

Lemma vot_del_k_intro alts p V : sublist V (seq 0 (length p)) -> vot_del_ok alts p V = true ->
  vot_del_k alts p (length V) = true.
Proof.
  intros Hs Hok. unfold vot_del_k. apply existsb_exists. exists V. split; [|assumption].
  apply subsets_k_iff. auto.
Qed.

(* any sufficient index set (even with repetitions or indices out of range) bounds the optimum *)
Theorem vot_del_bound alts p V : vot_del_ok alts p V = true -> min_vot_del alts p <= length V.
Proof.
  intros Hok. pose (V0 := norm_idx (length p) V).
  assert (H0 : vot_del_ok alts p V0 = true).
  { unfold vot_del_ok, V0. now rewrite remove_idx_norm. }
  apply Nat.le_trans with (length V0); [|apply norm_idx_length].
  unfold min_vot_del. apply least_le. apply vot_del_k_intro; [apply norm_idx_sublist|assumption].
Qed.

Lemma min_vot_del_le alts p : min_vot_del alts p <= length p.
Proof. apply least_bound. Qed.

Lemma min_vot_del_witness alts p : exists V,
  sublist V (seq 0 (length p)) /\ length V = min_vot_del alts p /\ vot_del_ok alts p V = true.
Proof.
  assert (H : vot_del_k alts p (min_vot_del alts p) = true).
  { unfold min_vot_del. apply least_true. exists (length p). split; [lia|].
    pose proof (vot_del_k_intro alts p (seq 0 (length p)) (sublist_refl _) (vot_del_ok_all alts p)) as H.
    now rewrite seq_length in H. }
  unfold vot_del_k in H. apply existsb_exists in H. destruct H as (V & HV & Hok).
  apply subsets_k_iff in HV. exists V. tauto.
Qed.

Theorem min_vot_del_correct alts p k : NoDup alts -> Forall (complete_on alts) p ->
  (min_vot_del alts p = k <->
   (exists V, NoDup V /\ (forall i, In i V -> i < length p) /\ length V = k /\ VotDel alts p V) /\
   (forall V', length V' < k -> ~ VotDel alts p V')).
Proof.
  intros Hnd Hc. split.
  - intros <-. split.
    + destruct (min_vot_del_witness alts p) as (V & Hs & Hl & Hok). exists V.
      split; [eapply sublist_NoDup; [exact Hs|apply seq_NoDup]|]. split.
      * intros i Hi. apply (sublist_incl _ _ Hs) in Hi. apply in_seq in Hi. lia.
      * split; [assumption|]. now apply vot_del_ok_correct.
    + intros V' Hlt HV'. apply vot_del_ok_correct in HV'; [|assumption|assumption].
      apply vot_del_bound in HV'. lia.
  - intros [(V & _ & _ & Hl & HV) Hmin].
    apply vot_del_ok_correct in HV; [|assumption|assumption].
    apply vot_del_bound in HV.
    destruct (min_vot_del_witness alts p) as (V1 & _ & Hl1 & Hok1).
    destruct (Nat.eq_dec (min_vot_del alts p) k) as [|Hne]; [assumption|]. exfalso.
    apply (Hmin V1); [lia|]. now apply vot_del_ok_correct.
Qed.

(* ---------------------------------------------------------------------------------------------- *)
(* 4. certificate checkers                                                                         *)

Theorem cert_alt_correct alts p k axis D : NoDup alts -> Forall (complete_on alts) p ->
  (cert_alt alts p k axis D = true <->
   NoDup D /\ incl D alts /\ length D = k /\
   Permutation (keepN D alts) (keepN D axis) /\ SPw_axis (delete_alts D p) (keepN D axis)).
Proof.
  intros Hnd Hc. unfold cert_alt.
  rewrite !andb_true_iff, nodupN_correct, forallb_forall, Nat.eqb_eq.
  rewrite (check_axis_correct (keepN D alts) (delete_alts D p) (keepN D axis));
    [|now apply keepN_NoDup|now apply complete_on_delete].
  split.
  - intros [[[H1 H2] H3] H4]. repeat split; try tauto. intros a Ha. apply memN_In. now apply H2.
  - intros (H1 & H2 & H3 & H4). repeat split; try tauto. intros a Ha. apply memN_In. now apply H2.
Qed.

Theorem cert_vot_correct alts p k axis V : NoDup alts -> Forall (complete_on alts) p ->
  (cert_vot alts p k axis V = true <->
   NoDup V /\ (forall i, In i V -> i < length p) /\ length V = k /\
   Permutation alts axis /\ SPw_axis (remove_idx V p) axis).
Proof.
  intros Hnd Hc. unfold cert_vot.
  rewrite !andb_true_iff, nodup_nat_correct, forallb_forall, Nat.eqb_eq.
  rewrite (check_axis_correct alts (remove_idx V p) axis);
    [|assumption|eapply sublist_Forall; [apply remove_idx_sublist|assumption]].
  split.
  - intros [[[H1 H2] H3] H4]. repeat split; try tauto. intros i Hi. apply Nat.ltb_lt. now apply H2.
  - intros (H1 & H2 & H3 & H4). repeat split; try tauto. intros i Hi. apply Nat.ltb_lt. now apply H2.
Qed.

(* a valid certificate of size k pins the optimum from above *)
Theorem cert_alt_valid_bound alts p k axis D : NoDup alts -> Forall (complete_on alts) p ->
  cert_alt alts p k axis D = true -> min_alt_del alts p <= k.
Proof.
  intros Hnd Hc H. apply cert_alt_correct in H; [|assumption|assumption].
  destruct H as (_ & _ & <- & Hp & Hsp). apply alt_del_bound; [assumption|assumption|].
  apply alt_del_ok_correct; [assumption|assumption|]. exists (keepN D axis). auto.
Qed.

Theorem cert_vot_valid_bound alts p k axis V : NoDup alts -> Forall (complete_on alts) p ->
  cert_vot alts p k axis V = true -> min_vot_del alts p <= k.
Proof.
  intros Hnd Hc H. apply cert_vot_correct in H; [|assumption|assumption].
  destruct H as (_ & _ & <- & Hp & Hsp). apply vot_del_bound.
  apply vot_del_ok_correct; [assumption|assumption|]. exists axis. auto.
Qed.

(* reference = k and certificate valid: the value is pinned from both sides *)
Corollary cert_alt_optimal alts p k axis D : NoDup alts -> Forall (complete_on alts) p ->
  cert_alt alts p k axis D = true -> k <= min_alt_del alts p ->
  min_alt_del alts p = k /\ forall D', length D' < k -> ~ AltDel alts p D'.
Proof.
  intros Hnd Hc H Hle. pose proof (cert_alt_valid_bound alts p k axis D Hnd Hc H) as Hb.
  assert (E : min_alt_del alts p = k) by lia. split; [assumption|].
  now apply (min_alt_del_correct alts p k Hnd Hc).
Qed.

Corollary cert_vot_optimal alts p k axis V : NoDup alts -> Forall (complete_on alts) p ->
  cert_vot alts p k axis V = true -> k <= min_vot_del alts p ->
  min_vot_del alts p = k /\ forall V', length V' < k -> ~ VotDel alts p V'.
Proof.
  intros Hnd Hc H Hle. pose proof (cert_vot_valid_bound alts p k axis V Hnd Hc H) as Hb.
  assert (E : min_vot_del alts p = k) by lia. split; [assumption|].
  now apply (min_vot_del_correct alts p k Hnd Hc).
Qed.

(* ---------------------------------------------------------------------------------------------- *)
(* 5. monotonicity under restriction to a subset of the alternatives                               *)

(* restrict_order and delete_order are both "filter every class, drop the emptied ones" *)
Definition fclasses (f : N -> bool) (o : order) : order :=
  filter (fun c => negb (is_nil c)) (map (filter f) o).

Lemma restrict_order_fc S o : restrict_order S o = fclasses (fun a => memN a S) o.
Proof. reflexivity. Qed.
Lemma delete_order_fc D o : delete_order D o = fclasses (fun a => negb (memN a D)) o.
Proof. reflexivity. Qed.

Lemma fclasses_cons f c r :
  fclasses f (c :: r) = match filter f c with [] => fclasses f r | x :: fc => (x :: fc) :: fclasses f r end.
Proof. unfold fclasses. simpl. destruct (filter f c); reflexivity. Qed.

Lemma fclasses_fclasses f g o : fclasses f (fclasses g o) = fclasses (fun a => g a && f a) o.
Proof.
  induction o as [|c r IH]; [reflexivity|].
  rewrite (fclasses_cons g), (fclasses_cons (fun a => g a && f a)), <- (filter_filter_and f g c).
  destruct (filter g c) as [|x fc] eqn:E.
  - simpl. exact IH.
  - rewrite fclasses_cons. destruct (filter f (x :: fc)); now rewrite IH.
Qed.

Lemma fclasses_ext f g o : (forall a, f a = g a) -> fclasses f o = fclasses g o.
Proof.
  intros E. unfold fclasses. f_equal. apply map_ext. intros c. now apply filter_ext.
Qed.

Lemma delete_restrict_comm D S o :
  delete_order D (restrict_order S o) = restrict_order S (delete_order D o).
Proof.
  rewrite !restrict_order_fc, !delete_order_fc, !fclasses_fclasses. apply fclasses_ext.
  intros a. apply andb_comm.
Qed.

Lemma keepN_restrict_comm D S l : keepN D (restrict_alts S l) = restrict_alts S (keepN D l).
Proof. unfold keepN, restrict_alts. apply filter_comm. Qed.

Lemma delete_alts_restrict_comm D S p :
  delete_alts D (map (restrict_order S) p) = map (restrict_order S) (delete_alts D p).
Proof.
  unfold delete_alts. rewrite !map_map. apply map_ext. intros o. apply delete_restrict_comm.
Qed.

Lemma complete_on_restrict_profile S alts p : Forall (complete_on alts) p ->
  Forall (complete_on (restrict_alts S alts)) (map (restrict_order S) p).
Proof.
  intros Hc. rewrite Forall_forall in *. intros o' Ho'. apply in_map_iff in Ho'.
  destruct Ho' as (o & <- & Ho). apply complete_on_restrict. now apply Hc.
Qed.

(* a deletion set that works for the profile works for its restriction to S *)
Lemma AltDel_restrict alts p D S : AltDel alts p D ->
  AltDel (restrict_alts S alts) (map (restrict_order S) p) D.
Proof.
  unfold AltDel. intros H. apply (sp_restrict _ _ S) in H.
  now rewrite keepN_restrict_comm, delete_alts_restrict_comm.
Qed.

Lemma VotDel_restrict alts p V S : VotDel alts p V ->
  VotDel (restrict_alts S alts) (map (restrict_order S) p) V.
Proof.
  unfold VotDel, remove_idx. intros H. apply (sp_restrict _ _ S) in H.
  now rewrite remove_idx_from_map.
Qed.

Theorem opt_restrict_mono_alt alts p S : NoDup alts -> Forall (complete_on alts) p ->
  min_alt_del (restrict_alts S alts) (map (restrict_order S) p) <= min_alt_del alts p.
Proof.
  intros Hnd Hc. destruct (min_alt_del_witness alts p) as (D & _ & <- & Hok).
  apply alt_del_ok_correct in Hok; [|assumption|assumption].
  apply alt_del_bound.
  - now apply NoDup_filter.
  - now apply complete_on_restrict_profile.
  - apply alt_del_ok_correct.
    + now apply NoDup_filter.
    + now apply complete_on_restrict_profile.
    + now apply AltDel_restrict.
Qed.

Theorem opt_restrict_mono_vot alts p S : NoDup alts -> Forall (complete_on alts) p ->
  min_vot_del (restrict_alts S alts) (map (restrict_order S) p) <= min_vot_del alts p.
Proof.
  intros Hnd Hc. destruct (min_vot_del_witness alts p) as (V & _ & <- & Hok).
  apply vot_del_ok_correct in Hok; [|assumption|assumption].
  apply vot_del_bound. apply vot_del_ok_correct.
  - now apply NoDup_filter.
  - now apply complete_on_restrict_profile.
  - now apply VotDel_restrict.
Qed.

(* ---------------------------------------------------------------------------------------------- *)
(* 6. monotonicity under removal of orders (no hypothesis on the profile is needed)                *)

Lemma spw_decide_incl alts q q' : incl q' q -> spw_decide alts q = true -> spw_decide alts q' = true.
Proof.
  intros Hi. unfold spw_decide. rewrite !existsb_exists. intros (axis & Hin & H). exists axis.
  split; [assumption|]. unfold sp_axis_profile in *. rewrite forallb_forall in *.
  intros o Ho. apply H. now apply Hi.
Qed.

Theorem opt_subprofile_mono_alt alts p p' : incl p' p -> min_alt_del alts p' <= min_alt_del alts p.
Proof.
  intros Hi. destruct (min_alt_del_witness alts p) as (D & Hs & <- & Hok).
  unfold min_alt_del. apply least_le. apply alt_del_k_intro; [assumption|].
  unfold alt_del_ok in *. eapply spw_decide_incl; [|exact Hok].
  unfold delete_alts. now apply incl_map.
Qed.

(* every sublist of p is obtained by removing an index set of the complementary size *)
Lemma sublist_as_remove_idx (q p : list order) : sublist q p -> forall i, exists V,
  remove_idx_from V i p = q /\ length V + length q = length p /\ forall v, In v V -> i <= v.
Proof.
  induction 1 as [l|x s l _ IH|x s l _ IH]; intros i.
  - exists (seq i (length l)). split; [|split].
    + apply remove_idx_from_all. intros j Hj. apply mem_nat_In. apply in_seq. lia.
    + rewrite seq_length. simpl. lia.
    + intros v Hv. apply in_seq in Hv. lia.
  - destruct (IH (S i)) as (V & E & Hl & Hge). exists (i :: V). split; [|split].
    + simpl. rewrite Nat.eqb_refl. simpl. rewrite <- E. apply remove_idx_from_ext.
      intros j Hj. simpl. destruct (Nat.eqb_spec j i) as [->|_]; [lia|reflexivity].
    + simpl. lia.
    + intros v [<-|Hv]; [lia|]. apply Hge in Hv. lia.
  - destruct (IH (S i)) as (V & E & Hl & Hge). exists V. split; [|split].
    + simpl. assert (Hm : mem_nat i V = false).
      { apply mem_nat_false. intros Hin. apply Hge in Hin. lia. }
      rewrite Hm, E. reflexivity.
    + simpl. lia.
    + intros v Hv. apply Hge in Hv. lia.
Qed.

(* two sublists of the same list have a common sublist that loses nothing more than either *)
Lemma sublist_meet {T} (p p' q : list T) : sublist p' p -> sublist q p -> exists q',
  sublist q' p' /\ incl q' q /\ length q + length p' <= length q' + length p.
Proof.
  intros Hp'. revert q. induction Hp' as [l|x s l Hsl IH|x s l Hsl IH]; intros q Hq.
  - exists []. split; [apply sl_nil|]. split; [intros a []|]. apply sublist_length in Hq. simpl. lia.
  - inversion Hq; subst.
    + exists []. split; [apply sl_nil|]. split; [intros a []|]. apply sublist_length in Hsl. simpl. lia.
    + destruct (IH q H1) as (q' & H1' & H2' & H3'). exists q'. split; [assumption|].
      split; [assumption|]. simpl. lia.
    + destruct (IH s0 H1) as (q' & H1' & H2' & H3'). exists q'. split; [assumption|].
      split; [intros a Ha; right; now apply H2'|]. simpl. lia.
  - inversion Hq; subst.
    + exists []. split; [apply sl_nil|]. split; [intros a []|]. apply sublist_length in Hsl. simpl. lia.
    + destruct (IH q H1) as (q' & H1' & H2' & H3'). exists q'. split; [now apply sl_skip|].
      split; [assumption|]. simpl. lia.
    + destruct (IH s0 H1) as (q' & H1' & H2' & H3'). exists (x :: q'). split; [now apply sl_take|].
      split; [|simpl; lia]. intros a [<-|Ha]; [now left|right; now apply H2'].
Qed.

Lemma remove_idx_lower_length V p : length p <= length (remove_idx V p) + length V.
Proof.
  pose proof (remove_idx_from_length V 0 p) as H. pose proof (norm_idx_length (length p) V) as H2.
  unfold norm_idx in H2. unfold remove_idx. lia.
Qed.

Theorem opt_subprofile_mono_vot alts p p' : sublist p' p -> min_vot_del alts p' <= min_vot_del alts p.
Proof.
  intros Hs. destruct (min_vot_del_witness alts p) as (V & _ & <- & Hok).
  destruct (sublist_meet p p' (remove_idx V p) Hs (remove_idx_sublist V p)) as (q' & Hq' & Hincl & Hlen).
  destruct (sublist_as_remove_idx q' p' Hq' 0) as (V' & E & HlV' & _).
  apply Nat.le_trans with (length V').
  - apply vot_del_bound. unfold vot_del_ok, remove_idx in *. rewrite E.
    eapply spw_decide_incl; [exact Hincl|exact Hok].
  - pose proof (remove_idx_lower_length V p). lia.
Qed.

(* ---------------------------------------------------------------------------------------------- *)
(* 7. invariance under reordering of the stored orders (reused by C15)                             *)

Lemma alt_del_ok_reorder alts p p' D : Permutation p p' -> alt_del_ok alts p D = alt_del_ok alts p' D.
Proof.
  intros Hp. unfold alt_del_ok. apply spw_decide_reorder. unfold delete_alts. now apply Permutation_map.
Qed.

Theorem min_alt_del_reorder alts p p' : Permutation p p' -> min_alt_del alts p = min_alt_del alts p'.
Proof.
  intros Hp. unfold min_alt_del. apply least_ext. intros k _. unfold alt_del_k.
  apply existsb_ext. intros D. now apply alt_del_ok_reorder.
Qed.

Lemma sublist_perm {T} (p p' q : list T) : Permutation p p' -> sublist q p ->
  exists q', sublist q' p' /\ Permutation q q'.
Proof.
  intros Hp. revert q. induction Hp as [|x l l' _ IH|x y l|l l' l'' _ IH1 _ IH2]; intros q Hq.
  - exists q. split; [assumption|apply Permutation_refl].
  - inversion Hq; subst.
    + exists []. split; [apply sl_nil|apply Permutation_refl].
    + destruct (IH q H1) as (q' & H1' & H2'). exists q'. split; [now apply sl_skip|assumption].
    + destruct (IH s H1) as (q' & H1' & H2'). exists (x :: q'). split; [now apply sl_take|now constructor].
  - inversion Hq; subst.
    + exists []. split; [apply sl_nil|apply Permutation_refl].
    + inversion H1; subst.
      * exists []. split; [apply sl_nil|apply Permutation_refl].
      * exists q. split; [apply sl_skip; now apply sl_skip|apply Permutation_refl].
      * exists (x :: s). split; [apply sl_take; now apply sl_skip|apply Permutation_refl].
    + inversion H1; subst.
      * exists [y]. split; [apply sl_skip; apply sl_take; apply sl_nil|apply Permutation_refl].
      * exists (y :: s). split; [apply sl_skip; now apply sl_take|apply Permutation_refl].
      * exists (x :: y :: s0). split; [apply sl_take; now apply sl_take|apply perm_swap].
  - destruct (IH1 q Hq) as (q1 & H1 & H2). destruct (IH2 q1 H1) as (q2 & H3 & H4).
    exists q2. split; [assumption|eapply perm_trans; eauto].
Qed.

Lemma min_vot_del_reorder_le alts p p' : Permutation p p' -> min_vot_del alts p' <= min_vot_del alts p.
Proof.
  intros Hp. destruct (min_vot_del_witness alts p) as (V & _ & <- & Hok).
  destruct (sublist_perm p p' (remove_idx V p) Hp (remove_idx_sublist V p)) as (q' & Hq' & Hperm).
  destruct (sublist_as_remove_idx q' p' Hq' 0) as (V' & E & HlV' & _).
  apply Nat.le_trans with (length V').
  - apply vot_del_bound. unfold vot_del_ok, remove_idx in *. rewrite E.
    rewrite <- (spw_decide_reorder alts _ _ Hperm). exact Hok.
  - pose proof (remove_idx_lower_length V p) as H1.
    apply Permutation_length in Hp. apply Permutation_length in Hperm. lia.
Qed.

Theorem min_vot_del_reorder alts p p' : Permutation p p' -> min_vot_del alts p = min_vot_del alts p'.
Proof.
  intros Hp. apply Nat.le_antisymm.
  - apply min_vot_del_reorder_le. now apply Permutation_sym.
  - now apply min_vot_del_reorder_le.
Qed.

(* the order in which alternatives_name lists the alternatives does not matter *)
Lemma keepN_perm D l l' : Permutation l l' -> Permutation (keepN D l) (keepN D l').
Proof. apply Permutation_filter. Qed.

Theorem min_vot_del_alts_perm alts alts' p : Permutation alts alts' ->
  min_vot_del alts p = min_vot_del alts' p.
Proof.
  intros Hp. unfold min_vot_del. apply least_ext. intros k _. unfold vot_del_k.
  apply existsb_ext. intros V. unfold vot_del_ok. now apply spw_decide_alts_perm.
Qed.

(* ---------------------------------------------------------------------------------------------- *)
(* 8. invariance under injective relabelling of the alternatives (reused by C15)                   *)

Section Relabel.
Variable f : N -> N.
Hypothesis f_inj : forall x y, f x = f y -> x = y.

Lemma keepN_map D l : keepN (map f D) (map f l) = map f (keepN D l).
Proof.
  unfold keepN. induction l as [|a l IH]; [reflexivity|]. simpl.
  rewrite (memN_map f f_inj). destruct (memN a D); simpl; now rewrite IH.
Qed.

Lemma delete_order_map D o : delete_order (map f D) (map_order f o) = map_order f (delete_order D o).
Proof.
  unfold delete_order, map_order. induction o as [|c r IH]; [reflexivity|]. simpl.
  rewrite keepN_map. destruct (keepN D c); simpl; now rewrite IH.
Qed.

Lemma delete_alts_map D p :
  delete_alts (map f D) (map (map_order f) p) = map (map_order f) (delete_alts D p).
Proof.
  unfold delete_alts. rewrite !map_map. apply map_ext. intros o. apply delete_order_map.
Qed.

Lemma alt_del_ok_relabel alts p D :
  alt_del_ok (map f alts) (map (map_order f) p) (map f D) = alt_del_ok alts p D.
Proof.
  unfold alt_del_ok. rewrite keepN_map, delete_alts_map. now apply spw_decide_relabel.
Qed.

Theorem min_alt_del_relabel alts p :
  min_alt_del (map f alts) (map (map_order f) p) = min_alt_del alts p.
Proof.
  unfold min_alt_del. rewrite map_length. apply least_ext. intros k _. unfold alt_del_k.
  rewrite subsets_k_map, existsb_map. apply existsb_ext. intros D. apply alt_del_ok_relabel.
Qed.

Lemma vot_del_ok_relabel alts p V :
  vot_del_ok (map f alts) (map (map_order f) p) V = vot_del_ok alts p V.
Proof.
  unfold vot_del_ok, remove_idx. rewrite remove_idx_from_map. now apply spw_decide_relabel.
Qed.

Theorem min_vot_del_relabel alts p :
  min_vot_del (map f alts) (map (map_order f) p) = min_vot_del alts p.
Proof.
  unfold min_vot_del. rewrite map_length. apply least_ext. intros k _. unfold vot_del_k.
  rewrite map_length. apply existsb_ext. intros V. apply vot_del_ok_relabel.
Qed.

(* certificates travel with the relabelling *)
Lemma nodupN_map l : nodupN (map f l) = nodupN l.
Proof.
  induction l as [|a l IH]; [reflexivity|]. simpl. now rewrite (memN_map f f_inj), IH.
Qed.

Lemma valid_axis_map alts axis : valid_axis (map f alts) (map f axis) = valid_axis alts axis.
Proof.
  unfold valid_axis. rewrite !map_length, nodupN_map, !forallb_map. f_equal; [f_equal|].
  - apply forallb_ext. intros a. apply (memN_map f f_inj).
  - apply forallb_ext. intros a. apply (memN_map f f_inj).
Qed.

Theorem cert_alt_relabel alts p k axis D :
  cert_alt (map f alts) (map (map_order f) p) k (map f axis) (map f D) = cert_alt alts p k axis D.
Proof.
  unfold cert_alt, spw_check_axis. rewrite nodupN_map, forallb_map, map_length, !keepN_map, delete_alts_map.
  rewrite valid_axis_map, (sp_axis_profile_map f f_inj).
  f_equal. f_equal. f_equal. apply forallb_ext. intros a. apply (memN_map f f_inj).
Qed.

Theorem cert_vot_relabel alts p k axis V :
  cert_vot (map f alts) (map (map_order f) p) k (map f axis) V = cert_vot alts p k axis V.
Proof.
  unfold cert_vot, spw_check_axis, remove_idx.
  rewrite map_length, remove_idx_from_map, valid_axis_map, (sp_axis_profile_map f f_inj). reflexivity.
Qed.
End Relabel.

Lemma alt_del_ok_alts_perm alts alts' p D : Permutation alts alts' ->
  alt_del_ok alts p D = alt_del_ok alts' p D.
Proof. intros Hp. unfold alt_del_ok. apply spw_decide_alts_perm. now apply keepN_perm. Qed.

Lemma min_alt_del_alts_perm_le alts alts' p : NoDup alts' -> Forall (complete_on alts') p ->
  Permutation alts alts' -> min_alt_del alts' p <= min_alt_del alts p.
Proof.
  intros Hnd Hc Hp. destruct (min_alt_del_witness alts p) as (D & _ & <- & Hok).
  apply alt_del_bound; [assumption|assumption|]. now rewrite <- (alt_del_ok_alts_perm alts alts' p D Hp).
Qed.

Theorem min_alt_del_alts_perm alts alts' p : NoDup alts -> Forall (complete_on alts) p ->
  Permutation alts alts' -> min_alt_del alts p = min_alt_del alts' p.
Proof.
  intros Hnd Hc Hp.
  assert (Hnd' : NoDup alts') by (eapply Permutation_NoDup; eauto).
  assert (Hc' : Forall (complete_on alts') p).
  { rewrite Forall_forall in *. intros o Ho. eapply complete_on_perm; [exact Hp|now apply Hc]. }
  apply Nat.le_antisymm.
  - apply min_alt_del_alts_perm_le; [assumption|assumption|now apply Permutation_sym].
  - now apply min_alt_del_alts_perm_le.
Qed.

(* ---------------------------------------------------------------------------------------------- *)
(* 9. strict profiles: the specification is C03's SP on the remaining alternatives                 *)

Lemma delete_order_strictify D r : delete_order D (strictify r) = strictify (keepN D r).
Proof.
  induction r as [|a r IH]; [reflexivity|].
  change (strictify (a :: r)) with ([a] :: strictify r). rewrite delete_order_fc, fclasses_cons.
  rewrite <- delete_order_fc, IH. unfold keepN. simpl. destruct (memN a D); reflexivity.
Qed.

Theorem AltDel_strict alts rs D :
  AltDel alts (map strictify rs) D <-> SP (keepN D alts) (map (keepN D) rs).
Proof.
  unfold AltDel, delete_alts. rewrite <- strict_agree, !map_map.
  erewrite map_ext; [reflexivity|]. intros r. simpl. apply delete_order_strictify.
Qed.

Theorem VotDel_strict alts rs V :
  VotDel alts (map strictify rs) V <-> exists rs', remove_idx V (map strictify rs) = map strictify rs' /\ SP alts rs'.
Proof.
  unfold VotDel, remove_idx. split.
  - intros H. exists (map (@concat N) (remove_idx_from V 0 (map strictify rs))).
    assert (E : remove_idx_from V 0 (map strictify rs) =
                map strictify (map (@concat N) (remove_idx_from V 0 (map strictify rs)))).
    { clear H. generalize 0. induction rs as [|r rs IH]; intros i; [reflexivity|].
      cbn [map remove_idx_from]. destruct (mem_nat i V); [apply IH|].
      cbn [map]. rewrite concat_strictify. f_equal. apply IH. }
    split; [exact E|]. apply strict_agree. now rewrite <- E.
  - intros (rs' & E & H). rewrite E. now apply strict_agree.
Qed.
