(* Proofs/ELPLevels.v — the level sets L[1..m] of get_L_sets (Model/ELPDP.v).

   Lspec n = the first n levels, defined directly: level k+1 = the alternatives ranked last, by some vote, among the
   alternatives not in the levels 1..k.  get_L_sets alts votes = Lspec |alts| (get_L_sets_spec); the levels are
   pairwise disjoint subsets of alts, and every alternative has a level when there is at least one vote. *)
From Coq Require Import List Arith NArith Bool Lia Permutation.
From PrefVerif Require Import Lib.Val Lib.Contig Lib.Subsets Model.SP Model.Deletion Model.ELPDP
                              Proofs.SP Proofs.Deletion Proofs.ELPDP Proofs.ELPComplete.
Import ListNotations.

Section Levels.
Variables (alts : list N) (votes : list (list N)).

(* not yet removed after the levels in `done` *)
Definition Gd (done : list (list N)) (a : N) : bool := memN a alts && negb (memN a (concat done)).

Definition next_level (done : list (list N)) : list N :=
  dedupN (flat_map last_opt (map (filter (Gd done)) votes)).

Fixpoint Lspec (n : nat) : list (list N) :=
  match n with 0 => [] | S k => Lspec k ++ [next_level (Lspec k)] end.

Lemma Lspec_length n : length (Lspec n) = n.
Proof. induction n; simpl; [reflexivity|]. rewrite app_length, IHn. simpl. lia. Qed.

Lemma memN_app a l1 l2 : memN a (l1 ++ l2) = memN a l1 || memN a l2.
Proof. unfold memN. apply existsb_app. Qed.

Lemma L_fold_spec n : forall k vc prev,
  map (filter (fun a => negb (memN a prev) && memN a alts)) vc = map (filter (Gd (Lspec k))) votes ->
  snd (fold_left (L_step alts) (seq (S k) n) (vc, prev, Lspec k)) = Lspec (k + n).
Proof.
  induction n as [|n IH]; intros k vc prev H.
  - simpl. now rewrite Nat.add_0_r.
  - cbn [seq fold_left]. unfold L_step at 2. rewrite H. fold (next_level (Lspec k)).
    change (Lspec k ++ [next_level (Lspec k)]) with (Lspec (S k)).
    rewrite (IH (S k)); [f_equal; lia|].
    rewrite map_map. apply map_ext. intros v. rewrite filter_filter_and. apply filter_ext. intros a.
    unfold Gd. cbn [Lspec]. rewrite concat_app. cbn [concat]. rewrite app_nil_r, memN_app.
    destruct (memN a alts), (memN a (concat (Lspec k))), (memN a (next_level (Lspec k))); reflexivity.
Qed.

Theorem get_L_sets_spec : get_L_sets alts votes = Lspec (length alts).
Proof.
  unfold get_L_sets. apply (L_fold_spec (length alts) 0 votes []).
  apply map_ext. intros v. apply filter_ext. intros a. unfold Gd. simpl. now rewrite andb_true_r.
Qed.

Lemma Lspec_firstn n k : k <= n -> firstn k (Lspec n) = Lspec k.
Proof.
  induction n as [|n IH]; intros Hk.
  - assert (k = 0) by lia. subst. reflexivity.
  - destruct (Nat.eq_dec k (S n)) as [->|Hne].
    + rewrite <- (Lspec_length (S n)) at 1. apply firstn_all.
    + cbn [Lspec]. rewrite firstn_app, Lspec_length. replace (k - n) with 0 by lia. simpl. rewrite app_nil_r.
      apply IH. lia.
Qed.

Lemma Lspec_nth n k : k < n -> nth k (Lspec n) [] = next_level (Lspec k).
Proof.
  induction n as [|n IH]; intros Hk; [lia|]. cbn [Lspec].
  destruct (Nat.eq_dec k n) as [->|Hne].
  - rewrite app_nth2; rewrite Lspec_length; [|lia]. now rewrite Nat.sub_diag.
  - rewrite app_nth1 by (rewrite Lspec_length; lia). apply IH. lia.
Qed.

Lemma flat_map_map_comp {A B C} (f : B -> list C) (g : A -> B) l : flat_map f (map g l) = flat_map (fun x => f (g x)) l.
Proof. induction l; simpl; congruence. Qed.

(* membership in a level *)
Lemma next_level_in done a : In a (next_level done) <->
  exists v, In v votes /\ filter (Gd done) v <> [] /\ a = last (filter (Gd done) v) 0%N.
Proof.
  unfold next_level. rewrite flat_map_map_comp. split.
  - intros H. apply dedupN_incl in H. apply memN_In in H. now apply memN_last_opt in H.
  - intros H. apply dedupN_complete. apply memN_In. now apply memN_last_opt.
Qed.

Hypothesis Halts : NoDup alts.
Hypothesis Hvotes : forall v, In v votes -> NoDup v /\ incl alts v.

Definition remaining_after (done : list (list N)) : list N := filter (Gd done) alts.

Lemma Gd_true done a : Gd done a = true <-> In a alts /\ ~ In a (concat done).
Proof. unfold Gd. rewrite andb_true_iff, negb_true_iff, memN_In, memN_false. reflexivity. Qed.

(* a is in the next level iff it is not yet removed and some vote ranks it below all the other remaining ones *)
Theorem next_level_iff done a : In a (next_level done) <->
  Gd done a = true /\ exists v, In v votes /\ forall b, Gd done b = true -> b <> a -> rk v b < rk v a.
Proof.
  rewrite next_level_in. split.
  - intros (v & Hv & Hne & ->). destruct (Hvotes v Hv) as [Nv Iv].
    assert (Hex : exists b, In b v /\ Gd done b = true).
    { destruct (filter (Gd done) v) as [|b l] eqn:E; [congruence|].
      assert (In b (filter (Gd done) v)) by (rewrite E; now left). apply filter_In in H. eauto. }
    destruct Hex as (b0 & Hb0 & Gb0).
    destruct (last_filter_max v (Gd done) 0%N Nv b0 Hb0 Gb0) as (E1 & E2 & _).
    split; [assumption|]. exists v. split; [assumption|]. intros b Gb Hb.
    assert (Hbv : In b v) by (apply Iv; now apply Gd_true in Gb).
    destruct (last_filter_max v (Gd done) 0%N Nv b Hbv Gb) as (_ & _ & E3).
    assert (rk v b <> rk v (last (filter (Gd done) v) 0%N)) by (apply rk_neq; auto). lia.
  - intros (Ga & v & Hv & Hlast). exists v. split; [assumption|]. destruct (Hvotes v Hv) as [Nv Iv].
    assert (Hav : In a v) by (apply Iv; now apply Gd_true in Ga).
    destruct (last_filter_max v (Gd done) 0%N Nv a Hav Ga) as (E1 & E2 & E3). split.
    + intros E. assert (In a (filter (Gd done) v)) by (apply filter_In; auto). rewrite E in H. contradiction.
    + destruct (N.eq_dec (last (filter (Gd done) v) 0%N) a) as [E|Hne]; [now symmetry|exfalso].
      specialize (Hlast _ E2 Hne). lia.
Qed.

Definition at_level (k : nat) (a : N) : Prop := In a (next_level (Lspec k)).    (* python level k+1 *)

Lemma level_in_Lspec j k a : j < k -> at_level j a -> In a (concat (Lspec k)).
Proof.
  intros Hjk Ha. apply in_concat. exists (next_level (Lspec j)). split; [|exact Ha].
  rewrite <- (Lspec_nth k j Hjk). apply nth_In. now rewrite Lspec_length.
Qed.

Lemma in_Lspec_level k a : In a (concat (Lspec k)) -> exists j, j < k /\ at_level j a.
Proof.
  intros H. apply in_concat in H. destruct H as (L & HL & Ha).
  apply (In_nth _ _ []) in HL. destruct HL as (j & Hj & E). rewrite Lspec_length in Hj.
  exists j. split; [assumption|]. unfold at_level. rewrite <- (Lspec_nth k j Hj), E. exact Ha.
Qed.

Lemma levels_disjoint j k a : j < k -> at_level j a -> ~ at_level k a.
Proof.
  intros Hjk Hj Hk. apply next_level_iff in Hk. destruct Hk as [G _]. apply Gd_true in G.
  apply (proj2 G). eapply level_in_Lspec; eauto.
Qed.

Lemma level_alts k a : at_level k a -> In a alts.
Proof. intros H. apply next_level_iff in H. destruct H as [G _]. now apply Gd_true in G. Qed.

(* every round removes something while something remains *)
Lemma filter_length_lt {T} (f g : T -> bool) l x : (forall y, f y = true -> g y = true) ->
  In x l -> g x = true -> f x = false -> length (filter f l) < length (filter g l).
Proof.
  intros Hfg. induction l as [|y l IH]; intros Hx Gx Fx; [contradiction|]. simpl.
  assert (Hle : length (filter f l) <= length (filter g l)).
  { clear -Hfg. induction l as [|z l IHl]; simpl; [lia|]. destruct (f z) eqn:Fz.
    - rewrite (Hfg z Fz). simpl. lia.
    - destruct (g z); simpl; lia. }
  destruct Hx as [->|Hx].
  - rewrite Gx, Fx. simpl. lia.
  - specialize (IH Hx Gx Fx). destruct (f y) eqn:Fy; [rewrite (Hfg y Fy); simpl; lia|]. destruct (g y); simpl; lia.
Qed.

Hypothesis Hvne : votes <> [].

Lemma remaining_shrinks k : remaining_after (Lspec k) <> [] ->
  length (remaining_after (Lspec (S k))) < length (remaining_after (Lspec k)).
Proof.
  intros Hne. unfold remaining_after in *. destruct votes as [|v0 vs] eqn:Ev; [congruence|]. rewrite <- Ev in *.
  assert (Hv0 : In v0 votes) by (rewrite Ev; now left). destruct (Hvotes v0 Hv0) as [Nv Iv].
  destruct (exists_worst v0 (filter (Gd (Lspec k)) alts) Nv) as (x & Hx & Hbot); [|assumption|].
  { intros a Ha. apply filter_In in Ha. apply Iv. tauto. }
  apply filter_In in Hx. destruct Hx as [Hxa Gx].
  assert (Hlev : at_level k x).
  { apply next_level_iff. split; [assumption|]. exists v0. split; [assumption|]. intros b Gb Hb.
    apply Hbot; [|assumption]. apply filter_In. split; [|assumption]. now apply Gd_true in Gb. }
  apply (filter_length_lt _ _ alts x); auto.
  - intros y Gy. apply Gd_true in Gy. apply Gd_true. split; [tauto|]. intros H. apply (proj2 Gy).
    cbn [Lspec]. rewrite concat_app. apply in_or_app. now left.
  - destruct (Gd (Lspec (S k)) x) eqn:E; [|reflexivity]. apply Gd_true in E. exfalso. apply (proj2 E).
    apply (level_in_Lspec k (S k)); [lia|assumption].
Qed.

Lemma remaining_bound k : k <= length alts -> length (remaining_after (Lspec k)) + k <= length alts.
Proof.
  induction k as [|k IH]; intros Hk.
  - unfold remaining_after. rewrite Nat.add_0_r.
    assert (L : forall (f : N -> bool) (l : list N), length (filter f l) <= length l).
    { intros f l. induction l as [|y l IHl]; simpl; [lia|]. destruct (f y); simpl; lia. }
    apply L.
  - specialize (IH ltac:(lia)). destruct (remaining_after (Lspec k)) as [|r rs] eqn:E.
    + assert (E' : remaining_after (Lspec (S k)) = []).
      { unfold remaining_after in *. destruct (filter (Gd (Lspec (S k))) alts) as [|y ys] eqn:F; [reflexivity|exfalso].
        assert (Hy : In y (filter (Gd (Lspec (S k))) alts)) by (rewrite F; now left). apply filter_In in Hy.
        destruct Hy as [Hya Gy]. apply Gd_true in Gy.
        assert (In y (filter (Gd (Lspec k)) alts)); [|rewrite E in H; contradiction].
        apply filter_In. split; [assumption|]. apply Gd_true. split; [assumption|]. intros H. apply (proj2 Gy).
        cbn [Lspec]. rewrite concat_app. apply in_or_app. now left. }
      rewrite E'. simpl. lia.
    + assert (Hne : remaining_after (Lspec k) <> []) by (rewrite E; discriminate).
      pose proof (remaining_shrinks k Hne). rewrite E in *. simpl in *. lia.
Qed.

(* every alternative has a level among the |alts| computed ones *)
Theorem level_total a : In a alts -> exists k, k < length alts /\ at_level k a.
Proof.
  intros Ha. pose proof (remaining_bound (length alts) (Nat.le_refl _)) as Hb.
  assert (E : remaining_after (Lspec (length alts)) = []) by (destruct (remaining_after _); [reflexivity|simpl in Hb; lia]).
  assert (Hin : In a (concat (Lspec (length alts)))).
  { destruct (in_dec N.eq_dec a (concat (Lspec (length alts)))) as [|Hn]; [assumption|exfalso].
    assert (In a (remaining_after (Lspec (length alts)))); [|rewrite E in H; contradiction].
    apply filter_In. split; [assumption|]. now apply Gd_true. }
  now apply in_Lspec_level.
Qed.

(* when the last of the |alts| levels is inhabited, every level is a singleton *)
Lemma remaining_in k a : In a (remaining_after (Lspec k)) <-> In a alts /\ ~ In a (concat (Lspec k)).
Proof. unfold remaining_after. rewrite filter_In, Gd_true. tauto. Qed.

Lemma remaining_sub j k a : j <= k -> In a (remaining_after (Lspec k)) -> In a (remaining_after (Lspec j)).
Proof.
  intros Hjk. rewrite !remaining_in. intros [H1 H2]. split; [assumption|]. intros H. apply H2.
  apply in_Lspec_level in H. destruct H as (i & Hi & Hl). apply (level_in_Lspec i k); [lia|assumption].
Qed.

Lemma at_level_remaining k a : at_level k a -> In a (remaining_after (Lspec k)).
Proof. intros H. apply next_level_iff in H. destruct H as [G _]. apply remaining_in. now apply Gd_true. Qed.

Lemma remaining_lower K : remaining_after (Lspec K) <> [] -> forall d j, j + d = K ->
  length (remaining_after (Lspec j)) >= length (remaining_after (Lspec K)) + d.
Proof.
  intros HK. induction d as [|d IH]; intros j Hj.
  - replace j with K by lia. lia.
  - assert (Hne : remaining_after (Lspec j) <> []).
    { destruct (remaining_after (Lspec K)) as [|a l] eqn:E; [congruence|].
      assert (Ha : In a (remaining_after (Lspec K))) by (rewrite E; now left).
      apply (remaining_sub j K) in Ha; [|lia]. intros E'. rewrite E' in Ha. contradiction. }
    pose proof (remaining_shrinks j Hne). specialize (IH (S j) ltac:(lia)). lia.
Qed.

(* two distinct alternatives at the same level make the remaining set shrink by two *)
Lemma filter_length_lt2 {T} (f g : T -> bool) l x y : NoDup l -> (forall z, f z = true -> g z = true) ->
  In x l -> In y l -> x <> y -> g x = true -> f x = false -> g y = true -> f y = false ->
  length (filter f l) + 2 <= length (filter g l).
Proof.
  intros Hnd Hfg. induction l as [|z l IH]; intros Hx Hy Hxy Gx Fx Gy Fy; [contradiction|]. inversion Hnd; subst.
  assert (Hle : forall l', length (filter f l') <= length (filter g l')).
  { induction l' as [|w l' IHl]; simpl; [lia|]. destruct (f w) eqn:Fw.
    - rewrite (Hfg w Fw). simpl. lia.
    - destruct (g w); simpl; lia. }
  simpl. destruct Hx as [->|Hx], Hy as [->|Hy].
  - congruence.
  - rewrite Gx, Fx. simpl. pose proof (filter_length_lt f g l y Hfg Hy Gy Fy). lia.
  - rewrite Gy, Fy. simpl. pose proof (filter_length_lt f g l x Hfg Hx Gx Fx). lia.
  - specialize (IH H2 Hx Hy Hxy Gx Fx Gy Fy). destruct (f z) eqn:Fz; [rewrite (Hfg z Fz); simpl; lia|]. destruct (g z); simpl; lia.
Qed.

Theorem top_level_singletons a : at_level (length alts - 1) a ->
  forall k x y, k < length alts -> at_level k x -> at_level k y -> x = y.
Proof.
  intros Ha k x y Hk Hx Hy. destruct (N.eq_dec x y) as [|Hxy]; [assumption|exfalso].
  set (K := length alts - 1) in *.
  assert (HK : remaining_after (Lspec K) <> []).
  { intros E. pose proof (at_level_remaining K a Ha) as H. rewrite E in H. contradiction. }
  assert (HKlen : length (remaining_after (Lspec K)) >= 1) by (destruct (remaining_after (Lspec K)); [congruence|simpl; lia]).
  (* |R_k| >= |R_K| + (K - k) and |R_(k+1)| + 2 <= |R_k|, but |R_j| + j <= |alts| *)
  pose proof (remaining_lower K HK (K - k) k ltac:(lia)) as Hlow.
  pose proof (remaining_bound k ltac:(lia)) as Hup.
  assert (H2 : length (remaining_after (Lspec (S k))) + 2 <= length (remaining_after (Lspec k))).
  { unfold remaining_after. apply (filter_length_lt2 _ _ alts x y Halts).
    - intros z Gz. apply Gd_true in Gz. apply Gd_true. split; [tauto|]. intros H. apply (proj2 Gz).
      cbn [Lspec]. rewrite concat_app. apply in_or_app. now left.
    - eapply level_alts; eauto.
    - eapply level_alts; eauto.
    - assumption.
    - apply next_level_iff in Hx. tauto.
    - destruct (Gd (Lspec (S k)) x) eqn:E; [|reflexivity]. apply Gd_true in E. exfalso. apply (proj2 E).
      apply (level_in_Lspec k (S k)); [lia|assumption].
    - apply next_level_iff in Hy. tauto.
    - destruct (Gd (Lspec (S k)) y) eqn:E; [|reflexivity]. apply Gd_true in E. exfalso. apply (proj2 E).
      apply (level_in_Lspec k (S k)); [lia|assumption]. }
  destruct (Nat.eq_dec k K) as [->|HkK].
  - (* k = K: |R_(K+1)| + 2 <= |R_K| <= |alts| - K = 1 *)
    pose proof (remaining_bound K ltac:(lia)). lia.
  - pose proof (remaining_lower K HK (K - S k) (S k) ltac:(lia)) as Hlow'. lia.
Qed.
End Levels.
