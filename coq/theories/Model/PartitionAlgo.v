(* Model/PartitionAlgo.v — MIRROR of k_alternative_partition_brut_force as it is in /repo after 175f7ec
   (preflibtools/properties/subdomains/ordinal/singlepeaked/k_alternative_partition.py).  Executable definitions only.

     k_alternative_partition_brut_force   bf_algo            dfs                          dfs
     singleton_pair_combinations          spc                extend                       extend / ext_piece
     get_L_sets, place, case_2, case_3, check_case_4, boundary        reused from Model/ELPDP.v (C12's mirror)

   REPRESENTATION
   * an incomplete axis  first_half + [None] + second_half  is ELPDP.paxis; `new_axis != axis` is negb (pa_eqb ..);
     the final `axes.remove(None)` is pa_elems.
   * the pieces of an extension are tuples (head,) / (head, pairing): place() takes x1, x2 = list(X)[0], list(X)[1],
     i.e. in tuple order, so ELPDP.place is used with pair_first := fun _ _ => true.
   * L is the list [L[1]; ...; L[m]]; dfs recurses on the list of the L-sets still to come (i == m  <->  []).
   * ORDER PARAMETER.  `for a in L[j]` iterates a CPython set, whose order is an artefact of hashing.  set_order
     (Section variable) is the order in which a set is visited; the theorems hold for every set_order that returns a
     permutation of its argument.  The extracted oracle is given a hint list by the harness (the iteration order
     observed in Python) and uses  hint_order hint L := (members of L in hint order) ++ (members of L not in hint).
   * LAZINESS.  singleton_pair_combinations is a generator whose pruning test calls limit() when a node is expanded,
     and limit() shrinks while the loop runs.  spc computes the whole list with the limit valid at the start of the
     loop; the loop body then skips an extension longer than the current limit.  This yields the same result: the
     generator yields every combination with at most limit()-now pieces (its pruning tests only compare lower bounds of
     the final length with earlier, larger limits), in the same relative order, and a longer combination can only
     produce axes lists with at least len(shortest) axes, which the loop body ignores.
   * shortest is threaded through the two nested loops as an accumulator (Python: a local variable of dfs). *)
From Coq Require Import List Arith NArith Bool.
From PrefVerif Require Import Lib.Val Lib.Contig Model.SP Model.ELPDP.
Import ListNotations.

Definition place_t (A : paxis) (X : list N) (votes : list (list N)) : paxis * bool :=
  place (fun _ _ => true) A X votes.

(* singleton_pair_combinations(items, later, limit, size) with limit() = lim throughout; fuel >= len(items) *)
Definition removeN (p : option N) (l : list N) : list N :=
  match p with None => l | Some y => filter (fun i => negb (N.eqb i y)) l end.

Fixpoint spc (fuel : nat) (items later : list N) (lim size : nat) : list (list (list N)) :=
  match items with
  | [] => [[]]
  | head :: rest =>
    match fuel with
    | 0 => []
    | S f =>
      if size + (length items + 1) / 2 <=? lim then
        flat_map (fun pairing =>
                    let pair := match pairing with None => [head] | Some y => [head; y] end in
                    map (cons pair) (spc f (removeN pairing rest) (removeN pairing later) lim (S size)))
                 (map Some rest ++ [None] ++ map Some later)
      else []
    end
  end.

(* extend(axes, extension, unique_votes, k): the queue holds pairs (unused_axes, used_axes) *)
Definition qstate : Type := (list paxis * list paxis)%type.

Definition ext_piece (votes : list (list N)) (k : nat) (alt : list N) (queue : list qstate) : list qstate :=
  flat_map (fun q : qstate =>
              let (unused, used) := q in
              flat_map (fun axis =>
                          let new_axis := fst (place_t axis alt votes) in
                          if negb (pa_eqb new_axis axis)
                          then [(filter (fun a => negb (pa_eqb a axis)) unused, used ++ [new_axis])]
                          else []) unused
              ++ (if length unused + length used <? k then
                    let new_axis := fst (place_t pa_empty alt votes) in
                    if negb (pa_eqb new_axis pa_empty) then [(unused, used ++ [new_axis])] else []
                  else [])) queue.

Definition extend (axes : list paxis) (extension : list (list N)) (votes : list (list N)) (k : nat)
  : list (list paxis) :=
  map (fun q : qstate => fst q ++ snd q)
      (fold_left (fun queue alt => ext_piece votes k alt queue) extension [(axes, [])]).

Definition limit_of (k : nat) (shortest : option (list paxis)) : nat :=
  match shortest with None => k | Some s => Nat.min k (length s - 1) end.

Definition shorter (ax : list paxis) (shortest : option (list paxis)) : bool :=
  match shortest with None => true | Some s => length ax <? length s end.

Section Algo.
Variable set_order : list N -> list N.

(* dfs(i, axes, shortest, m, k, L, unique_votes);  Ls = [L[i+1]; ...; L[m]] *)
Fixpoint dfs (Ls : list (list N)) (axes : list paxis) (shortest : option (list paxis)) (k : nat)
         (votes : list (list N)) : option (list paxis) :=
  match Ls with
  | [] => Some axes
  | L1 :: rest =>
    let placed := flat_map pa_elems axes in
    let new := filter (fun a => negb (memN a placed)) (set_order L1) in
    let later := filter (fun a => negb (memN a placed)) (flat_map set_order rest) in
    fold_left
      (fun sh extension =>
         if length extension <=? limit_of k sh then
           fold_left
             (fun sh ax =>
                if shorter ax sh then
                  match dfs rest ax sh k votes with
                  | Some completed => if shorter completed sh then Some completed else sh
                  | None => sh
                  end
                else sh)
             (extend axes extension votes (limit_of k sh)) sh
         else sh)
      (spc (length new) new later (limit_of k shortest) 0) shortest
  end.

(* k_alternative_partition_brut_force(instance, k): alts = list(alternatives_name), votes = the distinct strict orders *)
Definition bf_algo (alts : list N) (votes : list (list N)) (k : nat) : option (list (list N)) :=
  let m := length alts in
  let cap := (m + 1) / 2 in
  let k' := if cap <? k then cap else k in
  option_map (map pa_elems) (dfs (get_L_sets alts votes) [] None k' votes).
End Algo.

Definition hint_order (hint : list N) (L : list N) : list N :=
  filter (fun a => memN a L) hint ++ filter (fun a => negb (memN a hint)) L.
