(* Model/Distances.v — mirror model of preflibtools/properties/distances.py (C20).
   Executable definitions only; proofs are in Proofs/Distances.v. *)
From Coq Require Import List Arith NArith ZArith Bool.
From PrefVerif Require Import Lib.Val.
Import ListNotations.

(* tuple.index(x): position of the first occurrence; Python raises ValueError when absent *)
Fixpoint index (x : N) (l : list N) : option nat :=
  match l with
  | [] => None
  | y :: ys => if N.eqb x y then Some 0 else option_map S (index x ys)
  end.

Definition idx (l : list N) (x : N) : nat :=
  match index x l with Some i => i | None => length l end.

Definition all_in (o1 o2 : list N) : bool :=
  forallb (fun x => match index x o2 with Some _ => true | None => false end) o1.

(* for j1 in range(n): for j2 in range(j1+1, n): res += o2.index(o1[j1]) > o2.index(o1[j2]) *)
Fixpoint kt_count (o2 : list N) (o1 : list N) : nat :=
  match o1 with
  | [] => 0
  | x :: xs => length (filter (fun y => idx o2 y <? idx o2 x) xs) + kt_count o2 xs
  end.

Definition kendall_tau (o1 o2 : list N) : result nat :=
  if negb (length o1 =? length o2) then Err ValueErr
  else if (2 <=? length o1) && negb (all_in o1 o2) then Err ValueErr   (* .index raises ValueError *)
  else Ok (kt_count o2 o1).

(* sum_j |j - o2.index(o1[j])| ; the implementation divides by floor(n^2 / 2) in floating point,
   the model returns the exact numerator and denominator *)
Definition absdiff (a b : nat) : nat := (a - b) + (b - a).

Fixpoint footrule_from (o2 : list N) (j : nat) (o1 : list N) : nat :=
  match o1 with
  | [] => 0
  | x :: xs => absdiff j (idx o2 x) + footrule_from o2 (S j) xs
  end.

(* Out of the property's domain (fewer than two alternatives) both denominators are 0: the code then
   returns nan (footrule, numpy division) or raises ZeroDivisionError (sertel); the model returns the
   pair with denominator 0 and the harness never sends equal-length rankings of length < 2. *)
Definition footrule_num (o1 o2 : list N) : nat := footrule_from o2 0 o1.
Definition footrule_den (o1 : list N) : nat := (length o1 * length o1) / 2.

Definition spearman_footrule (o1 o2 : list N) : result (nat * nat) :=
  if negb (length o1 =? length o2) then Err ValueErr
  else if negb (all_in o1 o2) then Err ValueErr
  else Ok (footrule_num o1 o2, footrule_den o1).

(* j = 0; for j in range(n): if o1[j] != o2[j]: break   — j is the first differing position,
   or n-1 when there is none (or 0 when n = 0) *)
Fixpoint first_diff (o1 o2 : list N) : option nat :=
  match o1, o2 with
  | x :: xs, y :: ys => if N.eqb x y then option_map S (first_diff xs ys) else Some 0
  | _, _ => None
  end.

Definition sertel_j (o1 o2 : list N) : nat :=
  match first_diff o1 o2 with Some j => j | None => length o1 - 1 end.

Definition sertel (o1 o2 : list N) : result (nat * nat) :=
  if negb (length o1 =? length o2) then Err ValueErr
  else Ok (length o1 - 1 - sertel_j o1 o2, length o1 - 1).

(* distance_matrix: entry (i,j) = d(profile[i], profile[j]) off the diagonal, 0 on it;
   profile = full_profile() = each order repeated by its multiplicity, in the order of instance.orders *)
Definition expand_profile {T} (p : list (T * N)) : list T :=
  flat_map (fun om => repeat (fst om) (N.to_nat (snd om))) p.

Definition distance_matrix {T D} (zero : D) (d : T -> T -> D) (profile : list T) : list (list D) :=
  map (fun ip => map (fun jq => if (fst ip =? fst jq) then zero else d (snd ip) (snd jq))
                     (combine (seq 0 (length profile)) profile))
      (combine (seq 0 (length profile)) profile).
