(* Proofs/ELPDP.v — soundness of the mirrored Erdelyi-Lackner-Pfandler dynamic programme (Model/ELPDP.v).

   MAIN RESULTS (every size, every choice of the two order parameters pair_first / ext_order)
     elp_sound            the pair (axis, removed) returned by k_alternative_deletion is accepted by the verified
                          certificate checker: cert_alt alts profile |removed| axis removed = true
     elp_bound            hence  min_alt_del alts profile <= |removed|
     longest_axis_sound   the general form for a subset of the alternatives (used by C18)
     approx_valid         k_alt_partition_approx terminates (no OutOfFuel) when there is at least one vote and its
                          output is accepted by Partition.partition_check
   Proof: every incomplete axis ever stored (tables S[i], longest, locked_axis) satisfies an invariant
   (duplicate-free, inside the alternatives, single-peaked for every vote, and every placed alternative is ranked
   below all alternatives of the last placed set in some vote); `place` preserves it because its boundary checks
   (check 1, check_case_4, the c/d flags) are exactly what single-peakedness of the extended axis needs
   (arm lemmas armG / armH, sp_insert1, sp_insert2), and last_check keeps the placed alternatives distinct. *)
From Coq Require Import List Arith NArith Bool Lia Permutation.
From PrefVerif Require Import Lib.Val Lib.Contig Lib.Subsets Model.SP Model.Deletion Model.ELPDP
                              Proofs.SP Proofs.Deletion.
Import ListNotations.

(* ---------------------------------------------------------------------------------------------- *)
(* 1. ranks                                                                                        *)

Lemma rk_lt v a : In a v -> rk v a < length v.
Proof.
  induction v as [|x r IH]; intros H; [contradiction|]. simpl. destruct (N.eqb a x) eqn:E; [lia|].
  apply N.eqb_neq in E. destruct H as [->|H]; [congruence|]. apply IH in H. lia.
Qed.

Lemma rk_inj v a b : In a v -> In b v -> rk v a = rk v b -> a = b.
Proof.
  induction v as [|x r IH]; intros Ha Hb E; [contradiction|]. simpl in E.
  destruct (N.eqb a x) eqn:Ea, (N.eqb b x) eqn:Eb; try discriminate.
  - apply N.eqb_eq in Ea, Eb. congruence.
  - apply N.eqb_neq in Ea, Eb. destruct Ha as [->|Ha]; [congruence|]. destruct Hb as [->|Hb]; [congruence|].
    apply IH; auto.
Qed.

Lemma rk_neq v a b : In a v -> In b v -> a <> b -> rk v a <> rk v b.
Proof. intros Ha Hb Hab E. apply Hab. eapply rk_inj; eauto. Qed.

(* ---------------------------------------------------------------------------------------------- *)
(* 2. "a before b" and sub3 over cons / append / rev                                               *)

Definition bef {T} (a b : T) (l : list T) : Prop := exists l1 l2 l3, l = l1 ++ a :: l2 ++ b :: l3.

Lemma bef_in {T} (a b : T) l : bef a b l -> In a l /\ In b l.
Proof.
  intros (l1 & l2 & l3 & ->). split.
  - apply in_or_app. right. now left.
  - apply in_or_app. right. right. apply in_or_app. right. now left.
Qed.

Lemma sub3_in {T} (a b c : T) l : sub3 a b c l -> In a l /\ In b l /\ In c l.
Proof.
  intros (l1 & l2 & l3 & l4 & ->). repeat split.
  - apply in_or_app. right. now left.
  - apply in_or_app. right. right. apply in_or_app. right. now left.
  - apply in_or_app. right. right. apply in_or_app. right. right. apply in_or_app. right. now left.
Qed.

Lemma bef_cons {T} (x a b : T) l : bef a b (x :: l) <-> (a = x /\ In b l) \/ bef a b l.
Proof.
  split.
  - intros (l1 & l2 & l3 & E). destruct l1 as [|y l1]; simpl in E.
    + injection E as -> ->. left. split; [reflexivity|]. apply in_or_app. right. now left.
    + injection E as -> ->. right. now exists l1, l2, l3.
  - intros [[-> Hb]|(l1 & l2 & l3 & ->)].
    + apply in_split in Hb. destruct Hb as (l2 & l3 & ->). now exists [], l2, l3.
    + now exists (x :: l1), l2, l3.
Qed.

Lemma sub3_cons_iff {T} (x a b c : T) l : sub3 a b c (x :: l) <-> (a = x /\ bef b c l) \/ sub3 a b c l.
Proof.
  split.
  - intros (l1 & l2 & l3 & l4 & E). destruct l1 as [|y l1]; simpl in E.
    + injection E as -> ->. left. split; [reflexivity|]. now exists l2, l3, l4.
    + injection E as -> ->. right. now exists l1, l2, l3, l4.
  - intros [[-> (l2 & l3 & l4 & ->)]|(l1 & l2 & l3 & l4 & ->)].
    + now exists [], l2, l3, l4.
    + now exists (x :: l1), l2, l3, l4.
Qed.

Lemma bef_app {T} (a b : T) X Y : bef a b (X ++ Y) <-> bef a b X \/ (In a X /\ In b Y) \/ bef a b Y.
Proof.
  induction X as [|x X IH]; simpl.
  - split; [auto|]. intros [H|[[[] _]|H]]; [|exact H]. destruct H as (l1 & ? & ? & E). destruct l1; discriminate.
  - rewrite !bef_cons, IH, in_app_iff. split.
    + intros [[-> [H|H]]|[H|[[H1 H2]|H]]]; auto 6.
    + intros [[[-> H]|H]|[[[->|H1] H2]|H]]; auto 6.
Qed.

Lemma sub3_app {T} (a b c : T) X Y :
  sub3 a b c (X ++ Y) <-> sub3 a b c X \/ (bef a b X /\ In c Y) \/ (In a X /\ bef b c Y) \/ sub3 a b c Y.
Proof.
  induction X as [|x X IH]; simpl.
  - split; [auto|]. intros [H|[[H _]|[[[] _]|H]]]; [| |exact H].
    + destruct H as (l1 & ? & ? & ? & E). destruct l1; discriminate.
    + destruct H as (l1 & ? & ? & E). destruct l1; discriminate.
  - rewrite !sub3_cons_iff, IH, bef_app, bef_cons. split.
    + intros [[-> [H|[[H1 H2]|H]]]|[H|[[H1 H2]|[[H1 H2]|H]]]]; auto 8.
    + intros [[[-> H]|H]|[[[[-> H1]|H1] H2]|[[[->|H1] H2]|H]]]; auto 8.
Qed.

Lemma bef_rev {T} (a b : T) l : bef a b (rev l) <-> bef b a l.
Proof.
  assert (H : forall (a b : T) l, bef a b l -> bef b a (rev l)).
  { intros a0 b0 l0 (l1 & l2 & l3 & ->). exists (rev l3), (rev l2), (rev l1).
    rewrite rev_app_distr. simpl. rewrite rev_app_distr. simpl. now rewrite <- !app_assoc. }
  split; intros Hb; [|now apply H]. apply H in Hb. now rewrite rev_involutive in Hb.
Qed.

Lemma sub3_rev {T} (a b c : T) l : sub3 a b c (rev l) <-> sub3 c b a l.
Proof.
  assert (H : forall (a b c : T) l, sub3 a b c l -> sub3 c b a (rev l)).
  { intros a0 b0 c0 l0 (l1 & l2 & l3 & l4 & ->). exists (rev l4), (rev l3), (rev l2), (rev l1).
    rewrite rev_app_distr. simpl. rewrite rev_app_distr. simpl. rewrite rev_app_distr. simpl.
    now rewrite <- !app_assoc. }
  split; intros Hb; [|now apply H]. apply H in Hb. now rewrite rev_involutive in Hb.
Qed.

(* ---------------------------------------------------------------------------------------------- *)
(* 3. single-peakedness of one vote on a list of alternatives: no alternative ranked below both an  *)
(*    alternative to its left and one to its right                                                 *)

Definition spv (v : list N) (O : list N) : Prop :=
  forall a b c, sub3 a b c O -> ~ (rk v a < rk v b /\ rk v c < rk v b).

Lemma spv_valley v O : spv v O <-> valley (map (rk v) O).
Proof.
  unfold spv, valley, peak3. split.
  - intros H (x & y & z & Hs & Hxy & Hzy). apply sub3_map_inv in Hs.
    destruct Hs as (a & b & c & Hs & <- & <- & <-). now apply (H a b c Hs).
  - intros H a b c Hs [H1 H2]. apply H. exists (rk v a), (rk v b), (rk v c).
    split; [now apply sub3_map|lia].
Qed.

Lemma spv_rev v O : spv v (rev O) <-> spv v O.
Proof.
  unfold spv. split; intros H a b c Hs [H1 H2].
  - apply (H c b a); [now apply sub3_rev|lia].
  - apply (proj1 (sub3_rev a b c O)) in Hs. apply (H c b a Hs). lia.
Qed.

Lemma spv_app_l v X Y : spv v (X ++ Y) -> spv v X.
Proof. intros H a b c Hs. apply H. apply sub3_app. now left. Qed.
Lemma spv_app_r v X Y : spv v (X ++ Y) -> spv v Y.
Proof. intros H a b c Hs. apply H. apply sub3_app. auto. Qed.

(* ---------------------------------------------------------------------------------------------- *)
(* 4. arm lemmas.  An arm M lists one side of the gap, inner end first: p1 = hd M, p0 = second.      *)

(* check_case_4 on this arm *)
Definition arm_b (v M : list N) (x : N) : Prop :=
  exists p1 p0, nth_error M 0 = Some p1 /\ nth_error M 1 = Some p0 /\ rk v p0 < rk v p1 /\ rk v x < rk v p1.

Lemma arm_second_better v M p1 e rest : incl M v -> NoDup M -> spv v M -> M = p1 :: e :: rest ->
  forall a, In a (e :: rest) -> rk v a < rk v p1 -> rk v e < rk v p1.
Proof.
  intros HM HMnd Hsp EM a Ha Hlt. destruct Ha as [<-|Ha]; [assumption|].
  assert (Hne : rk v e <> rk v p1).
  { apply rk_neq; try (apply HM; rewrite EM; simpl; auto). intros ->. rewrite EM in HMnd.
    inversion HMnd as [|? ? Hn _]. apply Hn. now left. }
  destruct (lt_dec (rk v e) (rk v p1)) as [|Hge]; [assumption|exfalso].
  apply (Hsp p1 e a).
  - rewrite EM. apply in_split in Ha. destruct Ha as (l3 & l4 & ->). now exists [], [], l3, l4.
  - lia.
Qed.

(* x ranked above a deeper alternative b that is itself above something further out: then check_case_4 fires *)
Lemma armH v M x : incl M v -> NoDup M -> spv v M ->
  ~ arm_b v M x -> forall b c, bef b c M -> ~ (rk v x < rk v b /\ rk v c < rk v b).
Proof.
  intros HM HMnd Hsp Hnb b c Hbc [Hxb Hcb]. apply Hnb. destruct Hbc as (l1 & l2 & l3 & EM).
  destruct l1 as [|p1 l1]; simpl in EM.
  - (* b is the inner end *)
    destruct l2 as [|e l2]; simpl in EM.
    + exists b, c. rewrite EM. auto.
    + exists b, e. rewrite EM. repeat split; auto.
      apply (arm_second_better v M b e (l2 ++ c :: l3) HM HMnd Hsp EM c); [|assumption].
      right. apply in_or_app. right. now left.
  - (* b is deeper: it is ranked above the inner end *)
    assert (Hbp : rk v b < rk v p1).
    { assert (Hne : rk v b <> rk v p1).
      { apply rk_neq; try (apply HM; rewrite EM; simpl; auto).
        - right. apply in_or_app. right. now left.
        - intros ->. rewrite EM in HMnd. inversion HMnd as [|? ? Hn _]. apply Hn. apply in_or_app. right. now left. }
      destruct (lt_dec (rk v b) (rk v p1)) as [|Hge]; [assumption|exfalso].
      apply (Hsp p1 b c); [rewrite EM; now exists [], l1, l2, l3|lia]. }
    destruct l1 as [|e l1]; simpl in EM.
    + exists p1, b. rewrite EM. repeat split; auto. lia.
    + exists p1, e. rewrite EM. repeat split; auto; [|lia].
      apply (arm_second_better v M p1 e (l1 ++ b :: l2 ++ c :: l3) HM HMnd Hsp EM b); [|assumption].
      right. apply in_or_app. right. now left.
Qed.

(* x ranked below some alternative of the arm: then it is ranked below the inner end *)
Lemma armG v M x : incl M v -> NoDup M -> In x v -> ~ In x M -> spv v M ->
  ~ arm_b v M x -> forall a, In a M -> rk v a < rk v x -> forall p1, nth_error M 0 = Some p1 -> rk v p1 < rk v x.
Proof.
  intros HM HMnd Hx HxM Hsp Hnb a Ha Hax p1 Hp1.
  destruct M as [|q rest]; [discriminate|]. simpl in Hp1. injection Hp1 as ->.
  destruct Ha as [<-|Ha]; [assumption|].
  assert (Hne : rk v p1 <> rk v x).
  { apply rk_neq; auto; [apply HM; now left|]. intros ->. apply HxM. now left. }
  destruct (lt_dec (rk v p1) (rk v x)) as [|Hge]; [assumption|exfalso].
  apply Hnb. destruct rest as [|e rest]; [contradiction|]. exists p1, e. repeat split; auto; [|lia].
  apply (arm_second_better v (p1 :: e :: rest) p1 e rest HM HMnd Hsp eq_refl a Ha). lia.
Qed.

(* ---------------------------------------------------------------------------------------------- *)
(* 5. inserting at the gap preserves single-peakedness                                             *)

Definition check1 (v M1 M2 : list N) (x : N) : Prop :=
  exists p1 p2, nth_error M1 0 = Some p1 /\ nth_error M2 0 = Some p2 /\ rk v p1 < rk v x /\ rk v p2 < rk v x.

Lemma sp_insert1 v M1 M2 x :
  incl (rev M1 ++ M2) v -> In x v -> NoDup (x :: rev M1 ++ M2) ->
  spv v (rev M1 ++ M2) -> ~ check1 v M1 M2 x -> ~ arm_b v M1 x -> ~ arm_b v M2 x ->
  spv v (rev M1 ++ x :: M2).
Proof.
  intros Hincl Hx Hnd Hsp Hc1 Hb1 Hb2.
  assert (HM1 : incl M1 v) by (intros a Ha; apply Hincl; apply in_or_app; left; now apply in_rev in Ha).
  assert (HM2 : incl M2 v) by (intros a Ha; apply Hincl; apply in_or_app; now right).
  inversion Hnd as [|? ? HxO HO]; subst.
  assert (HxM1 : ~ In x M1) by (intros H; apply HxO; apply in_or_app; left; now apply in_rev in H).
  assert (HxM2 : ~ In x M2) by (intros H; apply HxO; apply in_or_app; now right).
  assert (Hnd1 : NoDup M1) by (apply NoDup_app_l in HO; now apply NoDup_rev in HO; rewrite rev_involutive in HO).
  assert (Hnd2 : NoDup M2) by (now apply NoDup_app_r in HO).
  assert (Hsp1 : spv v M1) by (apply spv_rev; eapply spv_app_l; eauto).
  assert (Hsp2 : spv v M2) by (eapply spv_app_r; eauto).
  intros a b c Hs [Hab Hcb]. apply sub3_app in Hs. destruct Hs as [Hs|[[Hs Hc]|[[Ha Hs]|Hs]]].
  - apply (Hsp a b c); [apply sub3_app; now left|lia].
  - destruct Hc as [<-|Hc].
    + apply (proj1 (bef_rev a b M1)) in Hs. apply (armH v M1 x HM1 Hnd1 Hsp1 Hb1 b a Hs). lia.
    + apply (Hsp a b c); [apply sub3_app; auto|lia].
  - apply bef_cons in Hs. destruct Hs as [[-> Hc]|Hs].
    + apply Hc1. apply in_rev in Ha.
      destruct M1 as [|p1 M1'] eqn:E1; [contradiction|]. destruct M2 as [|p2 M2'] eqn:E2; [contradiction|].
      exists p1, p2. repeat split; auto.
      * rewrite <- E1 in *. apply (armG v M1 x HM1 Hnd1 Hx HxM1 Hsp1 Hb1 a Ha Hab). now rewrite E1.
      * rewrite <- E2 in *. apply (armG v M2 x HM2 Hnd2 Hx HxM2 Hsp2 Hb2 c Hc Hcb). now rewrite E2.
    + apply (Hsp a b c); [apply sub3_app; auto|lia].
  - apply sub3_cons_iff in Hs. destruct Hs as [[-> Hs]|Hs].
    + apply (armH v M2 x HM2 Hnd2 Hsp2 Hb2 b c Hs). lia.
    + apply (Hsp a b c); [apply sub3_app; auto 6|lia].
Qed.

(* two alternatives u (left), w (right) at once: insert w, then u next to it *)
Lemma sp_insert2 v M1 M2 u w :
  incl (rev M1 ++ M2) v -> In u v -> In w v -> NoDup (u :: w :: rev M1 ++ M2) ->
  spv v (rev M1 ++ M2) ->
  ~ check1 v M1 M2 w -> ~ arm_b v M1 w -> ~ arm_b v M2 w -> ~ arm_b v M1 u ->
  (* d-flag of u: u below the left inner end and below w ; c-flag of w: w below the right inner end and below u *)
  ~ (exists p1, nth_error M1 0 = Some p1 /\ rk v p1 < rk v u /\ rk v w < rk v u) ->
  ~ (exists p2, nth_error M2 0 = Some p2 /\ rk v p2 < rk v w /\ rk v u < rk v w) ->
  spv v (rev M1 ++ u :: w :: M2).
Proof.
  intros Hincl Hu Hw Hnd Hsp Hc1 Hb1w Hb2w Hb1u Hdu Hcw.
  inversion Hnd as [|? ? Hu' Hnd']; subst.
  assert (Hspw : spv v (rev M1 ++ w :: M2)) by (now apply sp_insert1).
  apply (sp_insert1 v M1 (w :: M2) u).
  - intros a Ha. apply in_app_or in Ha. destruct Ha as [Ha|[<-|Ha]]; [apply Hincl; apply in_or_app; now left|assumption|].
    apply Hincl. apply in_or_app. now right.
  - assumption.
  - constructor.
    + intros H. apply Hu'. apply in_app_or in H. destruct H as [H|[<-|H]]; [right; apply in_or_app; now left|now left|].
      right. apply in_or_app. now right.
    + eapply Permutation_NoDup; [apply Permutation_middle|exact Hnd'].
  - exact Hspw.
  - intros (p1 & p2 & E1 & E2 & H1 & H2). simpl in E2. injection E2 as <-. apply Hdu. exists p1. auto.
  - exact Hb1u.
  - intros (p1 & p0 & E1 & E0 & H1 & H2). simpl in E1, E0. injection E1 as <-. apply Hcw. exists p0. auto.
Qed.

(* ---------------------------------------------------------------------------------------------- *)
(* 6. the boolean tests of the code, as the propositions above                                     *)

Lemma olt_rkb v a ix : olt (rkb v a) ix = true <-> exists p, a = Some p /\ rk v p < ix.
Proof.
  destruct a as [p|]; simpl.
  - rewrite Nat.ltb_lt. split; [intros H; exists p; auto|intros (q & E & H); injection E as ->; auto].
  - split; [discriminate|intros (q & E & _); discriminate].
Qed.

Lemma check1_b v M1 M2 x :
  isS (rkb v (nth_error M1 0)) && isS (rkb v (nth_error M2 0))
  && olt (rkb v (nth_error M1 0)) (rk v x) && olt (rkb v (nth_error M2 0)) (rk v x) = true
  <-> check1 v M1 M2 x.
Proof.
  unfold check1. destruct (nth_error M1 0) as [p1|], (nth_error M2 0) as [p2|]; simpl;
    try (split; [discriminate|intros (? & ? & E1 & E2 & _); discriminate]).
  rewrite andb_true_iff, !Nat.ltb_lt. split.
  - intros [H1 H2]. exists p1, p2. auto.
  - intros (q1 & q2 & E1 & E2 & H1 & H2). injection E1 as ->. injection E2 as ->. auto.
Qed.

Lemma cc4_b v M1 M2 x :
  check_case_4 (rkb v (nth_error M1 1)) (rkb v (nth_error M1 0)) (rkb v (nth_error M2 0)) (rkb v (nth_error M2 1)) (rk v x)
  = true <-> arm_b v M1 x \/ arm_b v M2 x.
Proof.
  unfold check_case_4, arm_b. rewrite orb_true_iff.
  assert (A : forall M, match rkb v (nth_error M 1), rkb v (nth_error M 0) with
                        | Some p0, Some p1 => (p0 <? p1) && (rk v x <? p1) | _, _ => false end = true <->
                        exists p1 p0, nth_error M 0 = Some p1 /\ nth_error M 1 = Some p0 /\
                                      rk v p0 < rk v p1 /\ rk v x < rk v p1).
  { intros M. destruct (nth_error M 1) as [q0|], (nth_error M 0) as [q1|]; simpl;
      try (split; [discriminate|intros (? & ? & ? & ? & _); discriminate]).
    rewrite andb_true_iff, !Nat.ltb_lt. split.
    - intros [H1 H2]. exists q1, q0. auto.
    - intros (p1 & p0 & E1 & E0 & H1 & H2). injection E1 as ->. injection E0 as ->. auto. }
  rewrite (A M1), (A M2). reflexivity.
Qed.

Definition c3_failb (bd : bnd) (x : N) (v : list N) : bool :=
  match bd with
  | (a0, a1, a2, a3) =>
    (isS (rkb v a1) && isS (rkb v a2) && olt (rkb v a1) (rk v x) && olt (rkb v a2) (rk v x))
    || ((isS (rkb v a0) || isS (rkb v a3)) && check_case_4 (rkb v a0) (rkb v a1) (rkb v a2) (rkb v a3) (rk v x))
  end.

Lemma c3_step_true bd x c d v : fst (fst (c3_step bd x (true, c, d) v)) = true.
Proof. destruct bd as [[[a0 a1] a2] a3]. reflexivity. Qed.

Lemma c3_fold_true bd x votes st : fst (fst st) = true -> fst (fst (fold_left (c3_step bd x) votes st)) = true.
Proof.
  revert st. induction votes as [|v r IH]; intros [[f c] d] H; cbn [fold_left]; [assumption|].
  cbn [fst] in H. subst f. apply IH. exact (c3_step_true bd x c d v).
Qed.

Lemma c3_fold_ok bd x votes c0 d0 c d :
  fold_left (c3_step bd x) votes (false, c0, d0) = (false, c, d) -> forall v, In v votes -> c3_failb bd x v = false.
Proof.
  revert c0 d0. induction votes as [|w r IH]; intros c0 d0 E v Hv; [contradiction|]. cbn [fold_left] in E.
  destruct (c3_failb bd x w) eqn:F.
  - exfalso. assert (Hs : c3_step bd x (false, c0, d0) w = (true, c0, d0)).
    { destruct bd as [[[a0 a1] a2] a3]. unfold c3_failb in F. unfold c3_step. cbn iota beta.
      apply orb_true_iff in F. destruct F as [F|F]; rewrite F; [reflexivity|].
      destruct (isS (rkb w a1) && isS (rkb w a2) && olt (rkb w a1) (rk w x) && olt (rkb w a2) (rk w x)); reflexivity. }
    rewrite Hs in E. pose proof (c3_fold_true bd x r (true, c0, d0) eq_refl) as Ht. rewrite E in Ht. discriminate.
  - destruct Hv as [<-|Hv]; [assumption|].
    assert (Hs : exists c1 d1, c3_step bd x (false, c0, d0) w = (false, c1, d1)).
    { destruct bd as [[[a0 a1] a2] a3]. unfold c3_failb in F. unfold c3_step. cbn iota beta.
      apply orb_false_iff in F. destruct F as [F1 F2]. rewrite F1, F2. eauto. }
    destruct Hs as (c1 & d1 & Hs). rewrite Hs in E. eapply IH; eauto.
Qed.

Lemma c3_failb_spec M1 M2 x v : c3_failb (boundary (M1, M2)) x v = false ->
  ~ check1 v M1 M2 x /\ ~ arm_b v M1 x /\ ~ arm_b v M2 x.
Proof.
  unfold boundary, c3_failb. cbn [fst snd]. intros F. apply orb_false_iff in F. destruct F as [F1 F2].
  split.
  - intros H. apply check1_b in H. congruence.
  - assert (Hcc : ~ (arm_b v M1 x \/ arm_b v M2 x)).
    { intros H. pose proof H as H'. apply cc4_b in H. rewrite H, andb_true_r in F2.
      apply orb_false_iff in F2. destruct F2 as [G0 G3].
      destruct H' as [(p1 & p0 & _ & E0 & _)|(p1 & p0 & _ & E0 & _)]; rewrite E0 in *; discriminate. }
    tauto.
Qed.

(* what case_3 returns *)
Lemma case_3_cases A x votes A' ok : case_3 A x votes = (A', ok) ->
  (A' = A /\ ok = false) \/
  ((A' = (fst A, x :: snd A) \/ A' = (x :: fst A, snd A)) /\
   forall v, In v votes -> ~ check1 v (fst A) (snd A) x /\ ~ arm_b v (fst A) x /\ ~ arm_b v (snd A) x).
Proof.
  unfold case_3. destruct A as [M1 M2]. cbn [fst snd]. unfold boundary at 1. cbn [fst snd].
  set (bd := (nth_error M1 1, nth_error M1 0, nth_error M2 0, nth_error M2 1)).
  destruct (isS (nth_error M1 0) || isS (nth_error M2 0)) eqn:G.
  - destruct (fold_left (c3_step bd x) votes (false, false, false)) as [[f c] d] eqn:F.
    destruct f; intros E; injection E as <- <-; [now left|right]. split.
    + destruct d; auto.
    + intros v Hv. apply (c3_failb_spec M1 M2 x v). eapply c3_fold_ok; eauto.
  - intros E. injection E as <- <-. right. split; [auto|]. intros v _.
    apply orb_false_iff in G. destruct G as [G1 G2].
    destruct (nth_error M1 0) eqn:E1; [discriminate|]. destruct (nth_error M2 0) eqn:E2; [discriminate|].
    repeat split.
    + intros (p1 & ? & H & _). congruence.
    + intros (p1 & ? & H & _). congruence.
    + intros (p1 & ? & H & _). congruence.
Qed.

(* ---- case_2 ---- *)
Definition c2_failed (st : c2_state) : bool := match st with (f, _, _, _, _) => f end.
Definition c2_bad (c1 d1 c2 d2 : bool) : bool := (c1 && d1) || (c2 && d2) || (c1 && c2) || (d1 && d2).

Definition c2_failb (bd : bnd) (x1 x2 : N) (v : list N) : bool :=
  match bd with
  | (a0, a1, a2, a3) =>
    (isS (rkb v a1) && isS (rkb v a2)
     && ((olt (rkb v a1) (rk v x1) && olt (rkb v a2) (rk v x1)) || (olt (rkb v a1) (rk v x2) && olt (rkb v a2) (rk v x2))))
    || ((isS (rkb v a0) || isS (rkb v a3))
        && (check_case_4 (rkb v a0) (rkb v a1) (rkb v a2) (rkb v a3) (rk v x1)
            || check_case_4 (rkb v a0) (rkb v a1) (rkb v a2) (rkb v a3) (rk v x2)))
  end.
Definition fc1 (bd : bnd) x1 x2 v := match bd with (_, _, a2, _) => olt (rkb v a2) (rk v x1) && (rk v x2 <? rk v x1) end.
Definition fc2 (bd : bnd) x1 x2 v := match bd with (_, _, a2, _) => olt (rkb v a2) (rk v x2) && (rk v x1 <? rk v x2) end.
Definition fd1 (bd : bnd) x1 x2 v := match bd with (_, a1, _, _) => olt (rkb v a1) (rk v x1) && (rk v x2 <? rk v x1) end.
Definition fd2 (bd : bnd) x1 x2 v := match bd with (_, a1, _, _) => olt (rkb v a1) (rk v x2) && (rk v x1 <? rk v x2) end.

Lemma c2_step_eq bd x1 x2 c1 d1 c2 d2 v :
  c2_step bd x1 x2 (false, c1, d1, c2, d2) v =
  if c2_failb bd x1 x2 v then (true, c1, d1, c2, d2)
  else let c1' := c1 || fc1 bd x1 x2 v in let c2' := c2 || fc2 bd x1 x2 v in
       let d1' := d1 || fd1 bd x1 x2 v in let d2' := d2 || fd2 bd x1 x2 v in
       if c2_bad c1' d1' c2' d2' then (true, c1', d1', c2', d2') else (false, c1', d1', c2', d2').
Proof.
  destruct bd as [[[a0 a1] a2] a3]. unfold c2_step, c2_failb, fc1, fc2, fd1, fd2, c2_bad. cbn iota beta.
  destruct (isS (rkb v a1) && isS (rkb v a2) &&
            (olt (rkb v a1) (rk v x1) && olt (rkb v a2) (rk v x1) || olt (rkb v a1) (rk v x2) && olt (rkb v a2) (rk v x2)));
    [reflexivity|]. cbn [orb].
  destruct ((isS (rkb v a0) || isS (rkb v a3)) &&
            (check_case_4 (rkb v a0) (rkb v a1) (rkb v a2) (rkb v a3) (rk v x1)
             || check_case_4 (rkb v a0) (rkb v a1) (rkb v a2) (rkb v a3) (rk v x2))); reflexivity.
Qed.

Lemma c2_step_failed bd x1 x2 st v : c2_failed st = true -> c2_failed (c2_step bd x1 x2 st v) = true.
Proof.
  destruct st as [[[[f c1] d1] c2] d2]. cbn [c2_failed]. intros ->. destruct bd as [[[a0 a1] a2] a3]. reflexivity.
Qed.

Lemma c2_fold_failed bd x1 x2 votes st :
  c2_failed st = true -> c2_failed (fold_left (c2_step bd x1 x2) votes st) = true.
Proof.
  revert st. induction votes as [|v r IH]; intros st H; cbn [fold_left]; [assumption|].
  apply IH. now apply c2_step_failed.
Qed.

Lemma c2_fold_ok bd x1 x2 votes c1 d1 c2 d2 C1 D1 C2 D2 :
  fold_left (c2_step bd x1 x2) votes (false, c1, d1, c2, d2) = (false, C1, D1, C2, D2) ->
  c2_bad c1 d1 c2 d2 = false ->
  c2_bad C1 D1 C2 D2 = false /\
  (forall v, In v votes -> c2_failb bd x1 x2 v = false) /\
  (c1 = true -> C1 = true) /\ (d1 = true -> D1 = true) /\ (c2 = true -> C2 = true) /\ (d2 = true -> D2 = true) /\
  (forall v, In v votes -> (fc1 bd x1 x2 v = true -> C1 = true) /\ (fd1 bd x1 x2 v = true -> D1 = true) /\
                           (fc2 bd x1 x2 v = true -> C2 = true) /\ (fd2 bd x1 x2 v = true -> D2 = true)).
Proof.
  revert c1 d1 c2 d2. induction votes as [|w r IH]; intros c1 d1 c2 d2 E Hb.
  - cbn [fold_left] in E. injection E as <- <- <- <-. repeat split; auto; contradiction.
  - cbn [fold_left] in E. rewrite c2_step_eq in E. destruct (c2_failb bd x1 x2 w) eqn:F.
    + exfalso. pose proof (c2_fold_failed bd x1 x2 r (true, c1, d1, c2, d2) eq_refl) as Ht. rewrite E in Ht. discriminate.
    + cbv zeta in E.
      destruct (c2_bad (c1 || fc1 bd x1 x2 w) (d1 || fd1 bd x1 x2 w) (c2 || fc2 bd x1 x2 w) (d2 || fd2 bd x1 x2 w)) eqn:B.
      * exfalso. pose proof (c2_fold_failed bd x1 x2 r (true, c1 || fc1 bd x1 x2 w, d1 || fd1 bd x1 x2 w, c2 || fc2 bd x1 x2 w, d2 || fd2 bd x1 x2 w) eq_refl) as Ht.
        rewrite E in Ht. discriminate.
      * destruct (IH _ _ _ _ E B) as (G0 & G1 & G2 & G3 & G4 & G5 & G6).
        split; [assumption|]. split.
        { intros v [<-|Hv]; auto. }
        split; [intros ->; apply G2; reflexivity|]. split; [intros ->; apply G3; reflexivity|].
        split; [intros ->; apply G4; reflexivity|]. split; [intros ->; apply G5; reflexivity|].
        intros v [<-|Hv]; [|now apply G6]. repeat split; intros Hf; rewrite Hf, orb_true_r in *; auto.
Qed.

Lemma c2_failb_spec M1 M2 x1 x2 v : c2_failb (boundary (M1, M2)) x1 x2 v = false ->
  (~ check1 v M1 M2 x1 /\ ~ arm_b v M1 x1 /\ ~ arm_b v M2 x1) /\
  (~ check1 v M1 M2 x2 /\ ~ arm_b v M1 x2 /\ ~ arm_b v M2 x2).
Proof.
  intros F. split; apply c3_failb_spec; unfold boundary, c2_failb, c3_failb in *; cbn [fst snd] in *;
    apply orb_false_iff in F; destruct F as [F1 F2]; apply orb_false_iff; split.
  - destruct (isS (rkb v (nth_error M1 0)) && isS (rkb v (nth_error M2 0))); [|reflexivity]. cbn [andb] in *.
    apply orb_false_iff in F1. tauto.
  - destruct (isS (rkb v (nth_error M1 1)) || isS (rkb v (nth_error M2 1))); [|reflexivity]. cbn [andb] in *.
    apply orb_false_iff in F2. tauto.
  - destruct (isS (rkb v (nth_error M1 0)) && isS (rkb v (nth_error M2 0))); [|reflexivity]. cbn [andb] in *.
    apply orb_false_iff in F1. tauto.
  - destruct (isS (rkb v (nth_error M1 1)) || isS (rkb v (nth_error M2 1))); [|reflexivity]. cbn [andb] in *.
    apply orb_false_iff in F2. tauto.
Qed.

(* the two flag conditions that matter for the chosen orientation (u left, w right) *)
Definition d_flag (v M1 : list N) (u w : N) : Prop :=
  exists p1, nth_error M1 0 = Some p1 /\ rk v p1 < rk v u /\ rk v w < rk v u.
Definition c_flag (v M2 : list N) (u w : N) : Prop :=
  exists p2, nth_error M2 0 = Some p2 /\ rk v p2 < rk v w /\ rk v u < rk v w.

Lemma flag_b v a i j : olt (rkb v a) (rk v i) && (rk v j <? rk v i) = true <->
  exists p, a = Some p /\ rk v p < rk v i /\ rk v j < rk v i.
Proof.
  rewrite andb_true_iff, Nat.ltb_lt, olt_rkb. split.
  - intros [(p & E & H) H2]. exists p. auto.
  - intros (p & E & H & H2). split; [exists p; auto|assumption].
Qed.

Lemma case_2_cases A x1 x2 votes A' ok : case_2 A x1 x2 votes = (A', ok) ->
  (A' = A /\ ok = false) \/
  (ok = true /\ exists u w, ((u = x1 /\ w = x2) \/ (u = x2 /\ w = x1)) /\ A' = (u :: fst A, w :: snd A) /\
   forall v, In v votes ->
     (~ check1 v (fst A) (snd A) w /\ ~ arm_b v (fst A) w /\ ~ arm_b v (snd A) w) /\ ~ arm_b v (fst A) u /\
     ~ d_flag v (fst A) u w /\ ~ c_flag v (snd A) u w).
Proof.
  unfold case_2. destruct A as [M1 M2]. cbn [fst snd]. unfold boundary at 1. cbn [fst snd].
  set (bd := (nth_error M1 1, nth_error M1 0, nth_error M2 0, nth_error M2 1)).
  assert (Hflags : forall C1 D1 C2 D2,
            c2_bad C1 D1 C2 D2 = false ->
            (forall v, In v votes -> c2_failb bd x1 x2 v = false) ->
            (forall v, In v votes -> (fc1 bd x1 x2 v = true -> C1 = true) /\ (fd1 bd x1 x2 v = true -> D1 = true) /\
                                     (fc2 bd x1 x2 v = true -> C2 = true) /\ (fd2 bd x1 x2 v = true -> D2 = true)) ->
            exists u w, ((u = x1 /\ w = x2) \/ (u = x2 /\ w = x1)) /\
              (if C2 || D1 then (x2 :: M1, x1 :: M2) else (x1 :: M1, x2 :: M2)) = (u :: M1, w :: M2) /\
              forall v, In v votes ->
                (~ check1 v M1 M2 w /\ ~ arm_b v M1 w /\ ~ arm_b v M2 w) /\ ~ arm_b v M1 u /\
                ~ d_flag v M1 u w /\ ~ c_flag v M2 u w).
  { intros C1 D1 C2 D2 Hbad Hfail Hfl. destruct (C2 || D1) eqn:O.
    - exists x2, x1. split; [auto|]. split; [reflexivity|]. intros v Hv.
      destruct (c2_failb_spec M1 M2 x1 x2 v (Hfail v Hv)) as [(K1 & K2 & K3) (K4 & K5 & K6)].
      destruct (Hfl v Hv) as (F1 & F2 & F3 & F4).
      assert (HD2 : D2 = false /\ C1 = false).
      { unfold c2_bad in Hbad. destruct C1, D1, C2, D2; simpl in *; try discriminate; auto. }
      destruct HD2 as [-> ->]. repeat split; auto.
      + intros Hd. assert (E : fd2 bd x1 x2 v = true) by (unfold fd2, bd; apply flag_b; exact Hd).
        apply F4 in E. discriminate.
      + intros Hc. assert (E : fc1 bd x1 x2 v = true) by (unfold fc1, bd; apply flag_b; exact Hc).
        apply F1 in E. discriminate.
    - exists x1, x2. split; [auto|]. split; [reflexivity|]. intros v Hv.
      destruct (c2_failb_spec M1 M2 x1 x2 v (Hfail v Hv)) as [(K1 & K2 & K3) (K4 & K5 & K6)].
      destruct (Hfl v Hv) as (F1 & F2 & F3 & F4).
      apply orb_false_iff in O. destruct O as [-> ->]. repeat split; auto.
      + intros Hd. assert (E : fd1 bd x1 x2 v = true) by (unfold fd1, bd; apply flag_b; exact Hd).
        apply F2 in E. discriminate.
      + intros Hc. assert (E : fc2 bd x1 x2 v = true) by (unfold fc2, bd; apply flag_b; exact Hc).
        apply F3 in E. discriminate. }
  destruct (isS (nth_error M1 0) || isS (nth_error M2 0)) eqn:G.
  - destruct (fold_left (c2_step bd x1 x2) votes (false, false, false, false, false)) as [[[[f C1] D1] C2] D2] eqn:F.
    destruct f; [intros E; injection E as <- <-; now left|].
    destruct (c2_fold_ok bd x1 x2 votes _ _ _ _ _ _ _ _ F eq_refl) as (G0 & G1 & _ & _ & _ & _ & G6).
    destruct (Hflags C1 D1 C2 D2 G0 G1 G6) as (u & w & Huw & EA & Hall).
    intros E. right. destruct (C2 || D1); injection E as <- <-; (split; [reflexivity|]); exists u, w; auto.
  - apply orb_false_iff in G. destruct G as [G1 G2].
    destruct (nth_error M1 0) eqn:E1; [discriminate|]. destruct (nth_error M2 0) eqn:E2; [discriminate|].
    intros E. cbn [orb] in E. injection E as <- <-. right. split; [reflexivity|]. exists x1, x2.
    split; [auto|]. split; [reflexivity|]. intros v _.
    repeat split; intros (p & ? & H & _); congruence.
Qed.

(* ---------------------------------------------------------------------------------------------- *)
(* 7. last_check                                                                                   *)

Lemma last_cons_ne {T} (x d : T) l : l <> [] -> last (x :: l) d = last l d.
Proof. destruct l; [congruence|reflexivity]. Qed.

Lemma last_filter_max v (f : N -> bool) d : NoDup v -> forall a, In a v -> f a = true ->
  In (last (filter f v) d) v /\ f (last (filter f v) d) = true /\ rk v a <= rk v (last (filter f v) d).
Proof.
  induction v as [|x r IH]; intros Hnd a Ha Fa; [contradiction|].
  inversion Hnd as [|? ? Hx Hr]; subst.
  assert (Hrk : forall b, In b r -> rk (x :: r) b = S (rk r b)).
  { intros b Hb. simpl. destruct (N.eqb b x) eqn:E; [|reflexivity]. apply N.eqb_eq in E. subst. contradiction. }
  destruct Ha as [<-|Ha].
  - simpl filter. rewrite Fa. destruct (filter f r) as [|y l] eqn:E.
    + simpl. rewrite N.eqb_refl. auto.
    + assert (Hy : In y r /\ f y = true) by (apply filter_In; rewrite E; now left).
      destruct (IH Hr y (proj1 Hy) (proj2 Hy)) as (H1 & H2 & _).
      rewrite last_cons_ne by discriminate. split; [now right|]. split; [assumption|].
      simpl rk at 1. rewrite N.eqb_refl. lia.
  - destruct (IH Hr a Ha Fa) as (H1 & H2 & H3).
    assert (Hne : filter f r <> []).
    { intros E. assert (In a (filter f r)) by (apply filter_In; auto). rewrite E in H. contradiction. }
    assert (El : last (filter f (x :: r)) d = last (filter f r) d).
    { simpl. destruct (f x); [now apply last_cons_ne|reflexivity]. }
    rewrite El. split; [now right|]. split; [assumption|]. rewrite !Hrk by assumption. lia.
Qed.

Lemma memN_last_opt a (g : list N -> list N) votes :
  memN a (flat_map (fun v => last_opt (g v)) votes) = true <->
  exists v, In v votes /\ g v <> [] /\ a = last (g v) 0%N.
Proof.
  rewrite memN_In, in_flat_map. unfold last_opt. split.
  - intros (v & Hv & H). exists v. destruct (g v) eqn:E; [contradiction|]. destruct H as [<-|[]].
    split; [assumption|]. split; [discriminate|reflexivity].
  - intros (v & Hv & Hne & ->). exists v. split; [assumption|]. destruct (g v); [congruence|now left].
Qed.

Section Sound.
Variables (alts : list N) (votes : list (list N)).
Hypothesis Halts : NoDup alts.
Hypothesis Hvotes : forall v, In v votes -> NoDup v /\ incl alts v.

Lemma last_check_spec Y x1 x2 : In x1 alts -> In x2 alts -> last_check votes Y x1 x2 = true ->
  (Y <> [] -> forall v, In v votes -> exists e, In e Y /\ In e v /\ e <> x1 /\ e <> x2 /\
                                      rk v x1 <= rk v e /\ rk v x2 <= rk v e /\
                                      forall y, In y Y -> In y v -> rk v y <= rk v e) /\
  (exists v, In v votes /\ rk v x2 <= rk v x1) /\ (exists v, In v votes /\ rk v x1 <= rk v x2).
Proof.
  intros H1 H2. unfold last_check. set (restr := [x1; x2] ++ Y).
  rewrite andb_true_iff, negb_true_iff, orb_false_iff, andb_true_iff. intros [[A1 A2] [B1 B2]].
  split; [|split].
  - intros HY v Hv. destruct (Hvotes v Hv) as [Hnd Hin].
    assert (NE : negb (is_nil Y) = true) by (destruct Y; [congruence|reflexivity]).
    rewrite NE, andb_true_r in A1, A2.
    set (f := fun a => memN a restr).
    assert (F1 : f x1 = true) by (apply memN_In; now left).
    assert (F2 : f x2 = true) by (apply memN_In; right; now left).
    destruct (last_filter_max v f 0%N Hnd x1 (Hin x1 H1) F1) as (E1 & E2 & E3).
    destruct (last_filter_max v f 0%N Hnd x2 (Hin x2 H2) F2) as (_ & _ & E4).
    set (e := last (filter f v) 0%N) in *.
    assert (Hne : filter f v <> []).
    { intros E. assert (In x1 (filter f v)) by (apply filter_In; split; [apply Hin|]; auto). rewrite E in H. contradiction. }
    assert (N1 : e <> x1).
    { intros E. apply memN_false in A1. apply A1. apply memN_In. apply memN_last_opt. exists v. auto. }
    assert (N2 : e <> x2).
    { intros E. apply memN_false in A2. apply A2. apply memN_In. apply memN_last_opt. exists v. auto. }
    exists e. apply memN_In in E2. unfold restr in E2. simpl in E2.
    destruct E2 as [E2|[E2|E2]]; [congruence|congruence|]. repeat split; auto.
    intros y Hy Hyv. apply (last_filter_max v f 0%N Hnd y Hyv). apply memN_In. unfold restr. simpl. auto.
  - apply memN_last_opt in B1. destruct B1 as (v & Hv & Hne & E). exists v. split; [assumption|].
    destruct (Hvotes v Hv) as [Hnd Hin]. rewrite filter_filter_and in E, Hne.
    set (f := fun a => memN a restr && memN a [x1; x2]) in *.
    assert (F2 : f x2 = true).
    { unfold f. apply andb_true_iff. split; apply memN_In; [unfold restr|]; simpl; auto. }
    destruct (last_filter_max v f 0%N Hnd x2 (Hin x2 H2) F2) as (_ & _ & E3). now rewrite <- E in E3.
  - apply memN_last_opt in B2. destruct B2 as (v & Hv & Hne & E). exists v. split; [assumption|].
    destruct (Hvotes v Hv) as [Hnd Hin]. rewrite filter_filter_and in E, Hne.
    set (f := fun a => memN a restr && memN a [x1; x2]) in *.
    assert (F1 : f x1 = true).
    { unfold f. apply andb_true_iff. split; apply memN_In; [unfold restr|]; simpl; auto. }
    destruct (last_filter_max v f 0%N Hnd x1 (Hin x1 H1) F1) as (_ & _ & E3). now rewrite <- E in E3.
Qed.

(* ---------------------------------------------------------------------------------------------- *)
(* 8. the invariant of every stored incomplete axis                                                *)

Definition Good (A : paxis) : Prop :=
  NoDup (pa_elems A) /\ incl (pa_elems A) alts /\ forall v, In v votes -> spv v (pa_elems A).
(* Y = the set of alternatives placed last on A (the X component of the dictionary key) *)
Definition Inv (A : paxis) (Y : list N) : Prop :=
  Good A /\ (Y = [] -> pa_elems A = []) /\
  forall a, In a (pa_elems A) -> exists v, In v votes /\ forall y, In y Y -> y <> a -> rk v y < rk v a.

Lemma Good_empty : Good pa_empty.
Proof. repeat split; simpl; [constructor|intros a []|]. intros v _ a b c (l1 & ? & ? & ? & E). destruct l1; discriminate. Qed.

Lemma Inv_empty : Inv pa_empty [].
Proof. split; [apply Good_empty|]. split; [reflexivity|]. intros a []. Qed.

Lemma pa_elems_left x M1 M2 : pa_elems (x :: M1, M2) = rev M1 ++ x :: M2.
Proof. unfold pa_elems. simpl. now rewrite <- app_assoc. Qed.
Lemma pa_elems_right x M1 M2 : pa_elems (M1, x :: M2) = rev M1 ++ x :: M2.
Proof. reflexivity. Qed.
Lemma pa_elems_both u w M1 M2 : pa_elems (u :: M1, w :: M2) = rev M1 ++ u :: w :: M2.
Proof. unfold pa_elems. simpl. now rewrite <- app_assoc. Qed.

(* freshness of the new alternatives and the new "ranked below the last placed set" witnesses *)
Lemma inv_fresh A Y x1 x2 : Inv A Y -> In x1 alts -> In x2 alts -> last_check votes Y x1 x2 = true ->
  forall a, In a (pa_elems A) ->
    a <> x1 /\ a <> x2 /\ exists v, In v votes /\ rk v x1 < rk v a /\ rk v x2 < rk v a.
Proof.
  intros (HG & HY & HQ) H1 H2 Hlc a Ha.
  destruct (last_check_spec Y x1 x2 H1 H2 Hlc) as (LC1 & _ & _).
  assert (HYne : Y <> []) by (intros E; rewrite (HY E) in Ha; contradiction).
  destruct (HQ a Ha) as (v & Hv & Hq). destruct (LC1 HYne v Hv) as (e & He & Hev & N1 & N2 & R1 & R2 & _).
  destruct (Hvotes v Hv) as [Hnd Hin].
  assert (S1 : rk v x1 < rk v e).
  { assert (rk v x1 <> rk v e) by (apply rk_neq; auto). lia. }
  assert (S2 : rk v x2 < rk v e).
  { assert (rk v x2 <> rk v e) by (apply rk_neq; auto). lia. }
  assert (K : rk v x1 < rk v a /\ rk v x2 < rk v a).
  { destruct (N.eq_dec e a) as [<-|Hne]; [auto|]. specialize (Hq e He Hne). lia. }
  split; [intros ->; lia|]. split; [intros ->; lia|]. exists v. tauto.
Qed.

Lemma perm_two_middle {T} (u w : T) X Y : Permutation (u :: w :: X ++ Y) (X ++ u :: w :: Y).
Proof.
  eapply perm_trans; [apply perm_skip; apply Permutation_middle|]. apply Permutation_middle.
Qed.

Section Place.
Variable pair_first : N -> N -> bool.

(* place on an axis satisfying the invariant, with an eligible set of one or two alternatives *)
Theorem place_inv A Y x1 x2 A' ok : Inv A Y -> In x1 alts -> In x2 alts -> last_check votes Y x1 x2 = true ->
  place pair_first A (mkset x1 x2) votes = (A', ok) ->
  (ok = true -> Inv A' (mkset x1 x2)) /\ (A' = A \/ Good A').
Proof.
  intros HI H1 H2 Hlc Hpl. pose proof HI as ((Hnd & Hincl & Hsp) & HY & HQ).
  pose proof (inv_fresh A Y x1 x2 HI H1 H2 Hlc) as Hfresh.
  destruct (last_check_spec Y x1 x2 H1 H2 Hlc) as (_ & (v1 & Hv1 & L1) & (v2 & Hv2 & L2)).
  destruct A as [M1 M2]. unfold pa_elems in *. cbn [fst snd] in *.
  assert (HinclV : forall v, In v votes -> incl (rev M1 ++ M2) v).
  { intros v Hv a Ha. apply (proj2 (Hvotes v Hv)). now apply Hincl. }
  unfold mkset in *. destruct (N.eqb x1 x2) eqn:E12.
  - (* one alternative *)
    apply N.eqb_eq in E12. subst x2. cbn [place] in Hpl.
    assert (Hx : ~ In x1 (rev M1 ++ M2)) by (intros H; destruct (Hfresh x1 H) as [N _]; congruence).
    apply case_3_cases in Hpl. cbn [fst snd] in Hpl. destruct Hpl as [[-> ->]|[HA' Hall]].
    + split; [discriminate|now left].
    + assert (HG' : Good A').
      { assert (E : pa_elems A' = rev M1 ++ x1 :: M2).
        { destruct HA' as [-> | ->]; [apply pa_elems_right|apply pa_elems_left]. }
        unfold Good. rewrite E. split; [|split].
        - eapply Permutation_NoDup; [apply Permutation_middle|]. now constructor.
        - intros a Ha. apply in_app_or in Ha. destruct Ha as [Ha|[<-|Ha]]; [apply Hincl; apply in_or_app; now left|assumption|].
          apply Hincl. apply in_or_app. now right.
        - intros v Hv. destruct (Hall v Hv) as (K1 & K2 & K3).
          apply sp_insert1; auto; [apply (proj2 (Hvotes v Hv)); assumption|now constructor]. }
      split; [|now right]. intros _. split; [assumption|]. split; [discriminate|].
      assert (E : pa_elems A' = rev M1 ++ x1 :: M2).
      { destruct HA' as [-> | ->]; [apply pa_elems_right|apply pa_elems_left]. }
      rewrite E. intros a Ha. apply in_app_or in Ha.
      assert (Hold : In a (rev M1 ++ M2) -> exists v, In v votes /\ forall y, In y [x1] -> y <> a -> rk v y < rk v a).
      { intros Hin. destruct (Hfresh a Hin) as (_ & _ & v & Hv & R & _). exists v. split; [assumption|].
        intros y [<-|[]] _. assumption. }
      destruct Ha as [Ha|[<-|Ha]]; [apply Hold; apply in_or_app; now left| |apply Hold; apply in_or_app; now right].
      exists v1. split; [assumption|]. intros y [<-|[]] N. congruence.
  - (* two alternatives *)
    apply N.eqb_neq in E12.
    assert (Hx1 : ~ In x1 (rev M1 ++ M2)) by (intros H; destruct (Hfresh x1 H) as [N _]; congruence).
    assert (Hx2 : ~ In x2 (rev M1 ++ M2)) by (intros H; destruct (Hfresh x2 H) as (_ & N & _); congruence).
    assert (Hc2 : exists y1 y2, ((y1 = x1 /\ y2 = x2) \/ (y1 = x2 /\ y2 = x1)) /\ case_2 (M1, M2) y1 y2 votes = (A', ok)).
    { destruct (N.ltb x1 x2); cbn [place] in Hpl.
      - destruct (pair_first x1 x2); [exists x1, x2|exists x2, x1]; auto.
      - destruct (pair_first x2 x1); [exists x2, x1|exists x1, x2]; auto. }
    destruct Hc2 as (y1 & y2 & Hy & Hc2). apply case_2_cases in Hc2. cbn [fst snd] in Hc2.
    destruct Hc2 as [[-> ->]|(-> & u & w & Huw & -> & Hall)].
    + split; [discriminate|now left].
    + assert (Huw' : (u = x1 /\ w = x2) \/ (u = x2 /\ w = x1)).
      { destruct Hy as [[-> ->]|[-> ->]], Huw as [[-> ->]|[-> ->]]; auto. }
      clear Hy Huw.
      assert (Hu : In u alts /\ In w alts /\ u <> w /\ ~ In u (rev M1 ++ M2) /\ ~ In w (rev M1 ++ M2)).
      { destruct Huw' as [[-> ->]|[-> ->]]; repeat split; auto. }
      destruct Hu as (Hua & Hwa & Huw & Hu & Hw).
      assert (HG' : Good (u :: M1, w :: M2)).
      { unfold Good. rewrite pa_elems_both. split; [|split].
        - eapply Permutation_NoDup; [apply perm_two_middle|]. constructor; [|now constructor].
          intros [E|H]; [congruence|contradiction].
        - intros a Ha. apply in_app_or in Ha. destruct Ha as [Ha|[<-|[<-|Ha]]]; auto;
            apply Hincl; apply in_or_app; auto.
        - intros v Hv. destruct (Hall v Hv) as ((K1 & K2 & K3) & K4 & K5 & K6).
          apply sp_insert2; auto; try (apply (proj2 (Hvotes v Hv)); assumption).
          constructor; [|now constructor]. intros [E|H]; [congruence|contradiction]. }
      split; [|now right]. intros _. split; [assumption|]. split.
      { destruct (N.ltb x1 x2); discriminate. }
      rewrite pa_elems_both. intros a Ha.
      assert (HX : forall y, In y (if N.ltb x1 x2 then [x1; x2] else [x2; x1]) -> y = x1 \/ y = x2).
      { intros y Hy. destruct (N.ltb x1 x2); simpl in Hy; intuition auto. }
      assert (Hold : In a (rev M1 ++ M2) ->
                exists v, In v votes /\ forall y, In y (if N.ltb x1 x2 then [x1; x2] else [x2; x1]) -> y <> a -> rk v y < rk v a).
      { intros Hin. destruct (Hfresh a Hin) as (_ & _ & v & Hv & R1 & R2). exists v. split; [assumption|].
        intros y Hy _. destruct (HX y Hy) as [-> | ->]; assumption. }
      assert (Hn1 : exists v, In v votes /\ forall y, In y (if N.ltb x1 x2 then [x1; x2] else [x2; x1]) -> y <> x1 -> rk v y < rk v x1).
      { exists v1. split; [assumption|]. intros y Hy N. destruct (HX y Hy) as [-> | ->]; [congruence|].
        destruct (Hvotes v1 Hv1) as [_ Hin]. assert (rk v1 x2 <> rk v1 x1) by (apply rk_neq; auto). lia. }
      assert (Hn2 : exists v, In v votes /\ forall y, In y (if N.ltb x1 x2 then [x1; x2] else [x2; x1]) -> y <> x2 -> rk v y < rk v x2).
      { exists v2. split; [assumption|]. intros y Hy N. destruct (HX y Hy) as [-> | ->]; [|congruence].
        destruct (Hvotes v2 Hv2) as [_ Hin]. assert (rk v2 x1 <> rk v2 x2) by (apply rk_neq; auto). lia. }
      apply in_app_or in Ha. destruct Ha as [Ha|[<-|[<-|Ha]]].
      * apply Hold. apply in_or_app. now left.
      * destruct Huw' as [[-> _]|[-> _]]; assumption.
      * destruct Huw' as [[_ ->]|[_ ->]]; assumption.
      * apply Hold. apply in_or_app. now right.
Qed.
End Place.
End Sound.

(* ---------------------------------------------------------------------------------------------- *)
(* 9. the tables and the loops                                                                     *)

Lemma dedupN_incl l a : In a (dedupN l) -> In a l.
Proof.
  induction l as [|x r IH]; simpl; [auto|]. intros [<-|H]; [now left|]. apply filter_In in H. right. apply IH. tauto.
Qed.

Lemma last_in {T} (l : list T) d : l <> [] -> In (last l d) l.
Proof.
  induction l as [|x r IH]; [congruence|]. intros _. destruct r as [|y r]; [now left|].
  right. apply IH. discriminate.
Qed.

Lemma in_last_opt a l : In a (last_opt l) -> In a l.
Proof. unfold last_opt. destruct l as [|x r]; [contradiction|]. intros [<-|[]]. apply last_in. discriminate. Qed.

Lemma L_sets_incl alts votes : forall L, In L (get_L_sets alts votes) -> incl L alts.
Proof.
  unfold get_L_sets.
  assert (H : forall l st, (forall L, In L (snd st) -> incl L alts) ->
                forall L, In L (snd (fold_left (L_step alts) l st)) -> incl L alts).
  { induction l as [|j l IH]; intros st Hst; [exact Hst|]. cbn [fold_left]. apply IH.
    destruct st as [[vc prev] acc]. unfold L_step. cbn [snd] in *. intros L HL. apply in_app_or in HL.
    destruct HL as [HL|[<-|[]]]; [now apply Hst|].
    intros a Ha. apply dedupN_incl in Ha. apply in_flat_map in Ha. destruct Ha as (w & Hw & Ha).
    apply in_last_opt in Ha. apply in_map_iff in Hw. destruct Hw as (w0 & <- & _). apply filter_In in Ha.
    destruct Ha as [_ Ha]. apply andb_true_iff in Ha. apply memN_In. tauto. }
  apply H. intros L [].
Qed.

Lemma tbl_set_In t k A e : In e (tbl_set t k A) -> e = (k, A) \/ In e t.
Proof.
  induction t as [|[k' A'] r IH]; simpl.
  - intros [<-|[]]. now left.
  - destruct (key_eq_dec k k').
    + intros [<-|H]; [now left|right; now right].
    + intros [<-|H]; [right; now left|]. destruct (IH H); [now left|right; now right].
Qed.

Lemma pa_eqb_refl A : pa_eqb A A = true.
Proof. unfold pa_eqb. destruct (list_eq_dec N.eq_dec (fst A) (fst A)), (list_eq_dec N.eq_dec (snd A) (snd A)); try reflexivity; exfalso; auto. Qed.

Lemma fold_left_inv {S T} (f : S -> T -> S) (P : S -> Prop) l s :
  (forall x, In x l -> forall s', P s' -> P (f s' x)) -> P s -> P (fold_left f l s).
Proof.
  revert s. induction l as [|x l IH]; intros s H Hs; [exact Hs|]. simpl. apply IH.
  - intros y Hy. apply H. now right.
  - apply H; [now left|assumption].
Qed.

Section Loops.
Variables (alts : list N) (votes : list (list N)).
Hypothesis Halts : NoDup alts.
Hypothesis Hvotes : forall v, In v votes -> NoDup v /\ incl alts v.
Variable pair_first : N -> N -> bool.
Variable ext_order : list (list N) -> list (list N).
Hypothesis Hext : forall l X, In X (ext_order l) -> In X l.

Definition StInv (st : dp_state) : Prop :=
  (forall bd Y A, In ((bd, Y), A) (s_cur st) -> Inv alts votes A Y) /\
  Good alts votes (s_longest st) /\ Good alts votes (s_locked st).

Lemma eligible_spec i m Y Ls X : (forall L, In L Ls -> incl L alts) ->
  In X (eligible ext_order i m Y Ls votes) ->
  exists x1 x2, X = mkset x1 x2 /\ In x1 alts /\ In x2 alts /\ last_check votes Y x1 x2 = true.
Proof.
  intros HLs HX. unfold eligible in HX. apply Hext in HX. apply nodup_In in HX.
  assert (HLi : incl (nth (i - 1) Ls []) alts).
  { destruct (nth_in_or_default (i - 1) Ls []) as [H|H]; [now apply HLs|rewrite H; intros a []]. }
  apply in_flat_map in HX. destruct HX as (x1 & H1 & HX). apply in_flat_map in HX. destruct HX as (x2 & H2 & HX).
  destruct (last_check votes Y x1 x2) eqn:E; [|contradiction]. destruct HX as [<-|[]].
  exists x1, x2. split; [reflexivity|]. split; [now apply HLi|]. split; [|exact E].
  apply dedupN_incl in H2. apply in_app_or in H2. destruct H2 as [H2|H2]; [now apply HLi|].
  apply in_concat in H2. destruct H2 as (L & HL & Ha). apply (HLs L); [|assumption].
  assert (Hf : forall {T} n (l : list T) y, In y (firstn n l) -> In y l).
  { intros T n. induction n as [|n IH]; intros l y Hy; [contradiction|]. destruct l; [contradiction|].
    destruct Hy as [<-|Hy]; [now left|right; now apply IH]. }
  assert (Hs : forall {T} n (l : list T) y, In y (skipn n l) -> In y l).
  { intros T n. induction n as [|n IH]; intros l y Hy; [assumption|]. destruct l; [contradiction|]. right. now apply IH. }
  eapply Hs. eapply Hf. exact HL.
Qed.

Lemma ext_step_inv A Y st X : Inv alts votes A Y -> StInv st ->
  (exists x1 x2, X = mkset x1 x2 /\ In x1 alts /\ In x2 alts /\ last_check votes Y x1 x2 = true) ->
  StInv (ext_step pair_first votes A st X).
Proof.
  intros HI (Hc & Hl & Hk) (x1 & x2 & -> & H1 & H2 & Hlc). unfold ext_step.
  destruct (place pair_first A (mkset x1 x2) votes) as [A' ok] eqn:Hpl.
  destruct (place_inv alts votes Hvotes pair_first A Y x1 x2 A' ok HI H1 H2 Hlc Hpl) as [Hok Hgood].
  destruct ok.
  - specialize (Hok eq_refl). assert (HG' : Good alts votes A') by apply Hok.
    split; [|split]; cbn [s_cur s_longest s_locked].
    + intros bd Y0 A0 Hin.
      assert (Hset : forall e, In e (tbl_set (s_cur st) (boundary A', mkset x1 x2) A') ->
                     e = ((boundary A', mkset x1 x2), A') \/ In e (s_cur st)) by (intros e; apply tbl_set_In).
      destruct (tbl_get (s_cur st) (boundary A', mkset x1 x2)) as [B|].
      * destruct (pa_len B <? pa_len A'); [|now apply (Hc bd)].
        destruct (Hset _ Hin) as [E|Hin']; [injection E as -> -> ->; assumption|now apply (Hc bd)].
      * destruct (Hset _ Hin) as [E|Hin']; [injection E as -> -> ->; assumption|now apply (Hc bd)].
    + destruct (pa_len (s_longest st) <? pa_len A'); assumption.
    + assumption.
  - destruct (negb (pa_eqb A' A) && (pa_len (s_locked st) <? pa_len A')) eqn:E; [|exact (conj Hc (conj Hl Hk))].
    apply andb_true_iff in E. destruct E as [E _]. apply negb_true_iff in E.
    destruct Hgood as [->|HG']; [rewrite pa_eqb_refl in E; discriminate|].
    split; [|split]; cbn [s_cur s_longest s_locked]; assumption.
Qed.

Lemma key_step_inv i m Ls remaining st e : (forall L, In L Ls -> incl L alts) ->
  Inv alts votes (snd e) (snd (fst e)) -> StInv st ->
  StInv (key_step pair_first ext_order i m Ls votes remaining st e).
Proof.
  intros HLs HI Hst. destruct e as [[bd Y] A]. cbn [fst snd] in HI. unfold key_step.
  destruct (pa_len A + length remaining <? pa_len (s_longest st)); [assumption|].
  apply fold_left_inv; [|assumption]. intros X HX s' Hs'. apply (ext_step_inv A Y); auto.
  eapply eligible_spec; eauto.
Qed.

Lemma outer_step_inv m Ls st i : (forall L, In L Ls -> incl L alts) ->
  StInv (fst st) -> StInv (fst (outer_step pair_first ext_order m Ls votes st i)).
Proof.
  intros HLs Hst. destruct st as [s remaining]. cbn [fst] in *. unfold outer_step. cbn [fst].
  apply fold_left_inv; [|assumption]. intros e He s' Hs'. apply key_step_inv; auto.
  destruct e as [[bd Y] A]. cbn [fst snd]. destruct Hst as [Hc _]. now apply (Hc bd).
Qed.

Theorem longest_axis_good : let r := longest_axis pair_first ext_order alts votes in
  NoDup (fst r) /\ incl (fst r) alts /\ (forall v, In v votes -> spv v (fst r)) /\
  snd r = filter (fun a => negb (memN a (fst r))) alts.
Proof.
  unfold longest_axis. cbv zeta. cbn [fst snd].
  set (Ls := get_L_sets alts votes).
  assert (HLs : forall L, In L Ls -> incl L alts) by apply L_sets_incl.
  set (st0 := (mk_dp init_table pa_empty pa_empty, alts)).
  assert (H0 : StInv (fst st0)).
  { split; [|split]; cbn; try apply Good_empty. intros bd Y A [E|[]]. injection E as <- <- <-. apply Inv_empty. }
  assert (H : StInv (fst (fold_left (outer_step pair_first ext_order (length alts) Ls votes) (seq 1 (length alts)) st0))).
  { apply (fold_left_inv _ (fun st => StInv (fst st))); [|assumption]. intros i _ s' Hs'. now apply outer_step_inv. }
  destruct H as (_ & Hl & Hk).
  set (st := fst (fold_left _ _ st0)) in *.
  assert (HG : Good alts votes (if pa_len (s_longest st) <? pa_len (s_locked st) then s_locked st else s_longest st)).
  { destruct (pa_len (s_longest st) <? pa_len (s_locked st)); assumption. }
  destruct HG as (G1 & G2 & G3). repeat split; assumption.
Qed.
End Loops.

(* ---------------------------------------------------------------------------------------------- *)
(* 10. from spv to the axis test of the checkers                                                   *)

Lemma class_pos_strictify w a : class_pos (strictify w) a = rk w a.
Proof.
  induction w as [|x r IH]; [reflexivity|]. change (strictify (x :: r)) with ([x] :: strictify r).
  rewrite class_pos_cons, IH. simpl. unfold memN. simpl. now rewrite orb_false_r.
Qed.

Lemma sp_axis_weak_strictify w O : sp_axis_weak (strictify w) O = true <-> spv w O.
Proof.
  unfold sp_axis_weak. rewrite sp_scan_ok_correct, spv_valley.
  erewrite map_ext; [reflexivity|]. intros a. apply class_pos_strictify.
Qed.

Lemma rk_filter_lt (f : N -> bool) v a b : NoDup v -> In a v -> In b v -> f a = true -> f b = true ->
  (rk (filter f v) a < rk (filter f v) b <-> rk v a < rk v b).
Proof.
  induction v as [|x r IH]; intros Hnd Ha Hb Fa Fb; [contradiction|].
  inversion Hnd as [|? ? Hx Hr]; subst. simpl filter. simpl rk at 3 4.
  destruct (N.eqb a x) eqn:Ea, (N.eqb b x) eqn:Eb.
  - apply N.eqb_eq in Ea, Eb. subst. rewrite Fa. simpl. rewrite N.eqb_refl. lia.
  - apply N.eqb_eq in Ea. subst. rewrite Fa. simpl. rewrite N.eqb_refl, Eb. lia.
  - apply N.eqb_eq in Eb. subst. rewrite Fb. simpl. rewrite N.eqb_refl, Ea. lia.
  - apply N.eqb_neq in Ea, Eb. destruct Ha as [->|Ha]; [congruence|]. destruct Hb as [->|Hb]; [congruence|].
    specialize (IH Hr Ha Hb Fa Fb). destruct (f x); simpl.
    + apply N.eqb_neq in Ea, Eb. rewrite Ea, Eb. lia.
    + lia.
Qed.

Lemma spv_filter (f : N -> bool) v O : NoDup v -> incl O v -> (forall a, In a O -> f a = true) ->
  (spv (filter f v) O <-> spv v O).
Proof.
  intros Hnd Hin Hf. unfold spv. split; intros H a b c Hs [H1 H2]; pose proof (sub3_in a b c O Hs) as (Ia & Ib & Ic).
  - apply (H a b c Hs). split; apply rk_filter_lt; auto.
  - apply (H a b c Hs). split; [apply (rk_filter_lt f v a b)|apply (rk_filter_lt f v c b)]; auto.
Qed.

(* the profile restricted to the axis' alternatives passes the axis test on the axis *)
Lemma axis_test_restricted (f : N -> bool) votes O :
  (forall v, In v votes -> NoDup v /\ incl O v /\ spv v O) -> (forall a, In a O -> f a = true) ->
  sp_axis_profile (map strictify (map (filter f) votes)) O = true.
Proof.
  intros H Hf. unfold sp_axis_profile. rewrite map_map, forallb_forall. intros o Ho.
  apply in_map_iff in Ho. destruct Ho as (v & <- & Hv). destruct (H v Hv) as (Hnd & Hin & Hsp).
  apply sp_axis_weak_strictify. now apply spv_filter.
Qed.

Lemma filter_all_true {T} (f : T -> bool) l : (forall x, In x l -> f x = true) -> filter f l = l.
Proof.
  induction l as [|x l IH]; intros H; [reflexivity|]. simpl. rewrite (H x (or_introl eq_refl)). f_equal.
  apply IH. intros y Hy. apply H. now right.
Qed.

Section Final.
Variable pair_first : N -> N -> bool.
Variable ext_order : list (list N) -> list (list N).
Hypothesis Hext : forall l X, In X (ext_order l) -> In X l.

(* general form: alts may be a subset of the alternatives of the votes (C18) *)
Theorem longest_axis_sound alts votes : NoDup alts -> (forall v, In v votes -> NoDup v /\ incl alts v) ->
  let r := longest_axis pair_first ext_order alts votes in
  NoDup (fst r) /\ incl (fst r) alts /\
  Permutation alts (fst r ++ snd r) /\
  sp_axis_profile (map strictify (map (restrict_ranking (fst r)) votes)) (fst r) = true.
Proof.
  intros Hnd Hv r. destruct (longest_axis_good alts votes Hv pair_first ext_order Hext) as (G1 & G2 & G3 & G4).
  fold r in G1, G2, G3, G4. clearbody r. split; [assumption|]. split; [assumption|]. split.
  - rewrite G4.
    assert (P : forall l, NoDup l -> Permutation l (filter (fun a => memN a (fst r)) l ++ filter (fun a => negb (memN a (fst r))) l)).
    { induction l as [|x l IH]; intros Hl; [apply perm_nil|]. inversion Hl; subst. simpl. destruct (memN x (fst r)); simpl.
      - apply perm_skip. now apply IH.
      - apply Permutation_cons_app. now apply IH. }
    eapply perm_trans; [apply (P alts Hnd)|]. apply Permutation_app_tail.
    apply NoDup_Permutation; [now apply NoDup_filter|assumption|].
    intros a. rewrite filter_In, memN_In. split; [tauto|]. intros Ha. split; [now apply G2|assumption].
  - unfold restrict_ranking. apply axis_test_restricted.
    + intros v Hin. destruct (Hv v Hin) as [N1 N2]. split; [assumption|]. split; [|now apply G3].
      intros a Ha. apply N2. now apply G2.
    + intros a Ha. now apply memN_In.
Qed.

(* k_alternative_deletion on a strict complete profile returns a certificate accepted by the verified checker *)
Theorem elp_sound alts votes : NoDup alts -> (forall v, In v votes -> Permutation alts v) ->
  let r := k_alternative_deletion pair_first ext_order alts votes in
  cert_alt alts (map strictify votes) (length (snd r)) (fst r) (snd r) = true.
Proof.
  intros Hnd Hp r.
  assert (Hv : forall v, In v votes -> NoDup v /\ incl alts v).
  { intros v Hin. split; [eapply Permutation_NoDup; [apply Hp|]; eauto|]. intros a Ha. eapply Permutation_in; [apply Hp|]; eauto. }
  destruct (longest_axis_good alts votes Hv pair_first ext_order Hext) as (G1 & G2 & G3 & G4).
  unfold k_alternative_deletion in r. fold r in G1, G2, G3, G4. clearbody r.
  set (O := fst r) in *. set (D := snd r) in *.
  assert (HD : forall a, In a D <-> In a alts /\ ~ In a O).
  { intros a. rewrite G4, filter_In, negb_true_iff, memN_false. reflexivity. }
  assert (KO : keepN D O = O).
  { apply filter_all_true. intros a Ha. apply negb_true_iff, memN_false. intros HaD. apply HD in HaD. tauto. }
  unfold cert_alt. rewrite !andb_true_iff. split; [split; [split|]|].
  - apply nodupN_correct. rewrite G4. now apply NoDup_filter.
  - apply forallb_forall. intros a Ha. apply memN_In. now apply HD.
  - apply Nat.eqb_refl.
  - unfold spw_check_axis. rewrite KO. apply andb_true_iff. split.
    + apply valid_axis_correct; [now apply keepN_NoDup|].
      apply NoDup_Permutation; [now apply keepN_NoDup|assumption|].
      intros a. rewrite keepN_In, HD. split.
      * intros [Ha Hn]. destruct (in_dec N.eq_dec a O); tauto.
      * intros Ha. split; [now apply G2|tauto].
    + assert (E : delete_alts D (map strictify votes) = map strictify (map (filter (fun a => negb (memN a D))) votes)).
      { unfold delete_alts. rewrite !map_map. apply map_ext. intros v. apply delete_order_strictify. }
      rewrite E. apply axis_test_restricted.
      * intros v Hin. destruct (Hv v Hin) as [N1 N2]. split; [assumption|]. split; [|now apply G3].
        intros a Ha. apply N2. now apply G2.
      * intros a Ha. apply negb_true_iff, memN_false. intros HaD. apply HD in HaD. tauto.
Qed.

Corollary elp_bound alts votes : NoDup alts -> (forall v, In v votes -> Permutation alts v) ->
  min_alt_del alts (map strictify votes) <= length (snd (k_alternative_deletion pair_first ext_order alts votes)).
Proof.
  intros Hnd Hp. eapply cert_alt_valid_bound; [assumption| |apply elp_sound; assumption].
  apply Forall_forall. intros o Ho. apply in_map_iff in Ho. destruct Ho as (v & <- & Hv).
  apply complete_on_strictify; auto.
Qed.
End Final.

(* ---------------------------------------------------------------------------------------------- *)
(* 11. progress: with at least one vote and one alternative the longest axis is not empty           *)

Lemma dedupN_complete l a : In a l -> In a (dedupN l).
Proof.
  induction l as [|x r IH]; [auto|]. simpl. intros [->|H]; [now left|].
  destruct (N.eq_dec a x) as [->|Hne]; [now left|]. right. apply filter_In. split; [now apply IH|].
  apply negb_true_iff. now apply N.eqb_neq.
Qed.

Lemma L_fold_prefix alts l st : exists ext, snd (fold_left (L_step alts) l st) = snd st ++ ext.
Proof.
  revert st. induction l as [|j l IH]; intros st; [exists []; now rewrite app_nil_r|].
  cbn [fold_left]. destruct (IH (L_step alts st j)) as (ext & E). rewrite E.
  destruct st as [[vc prev] acc]. unfold L_step. cbn [snd]. rewrite <- app_assoc. eauto.
Qed.

Lemma L1_nonempty alts votes a0 v0 : In a0 alts -> In v0 votes -> In a0 v0 ->
  nth 0 (get_L_sets alts votes) [] <> [].
Proof.
  intros Ha Hv Hav. unfold get_L_sets. destruct alts as [|a1 alts']; [contradiction|].
  cbn [length seq fold_left].
  destruct (L_fold_prefix (a1 :: alts') (seq 2 (length alts')) (L_step (a1 :: alts') (votes, [], []) 1)) as (ext & E).
  rewrite E. unfold L_step at 1. cbn [snd app nth].
  set (g := fun a => negb (memN a []) && memN a (a1 :: alts')).
  intros E0.
  assert (Hin : In (last (filter g v0) 0%N) (dedupN (flat_map last_opt (map (filter g) votes)))).
  { apply dedupN_complete. apply in_flat_map. exists (filter g v0). split; [now apply in_map|].
    unfold last_opt. destruct (filter g v0) eqn:F; [|now left].
    assert (In a0 (filter g v0)).
    { apply filter_In. split; [assumption|]. unfold g. apply andb_true_iff. split; [reflexivity|]. now apply memN_In. }
    rewrite F in H. contradiction. }
  rewrite E0 in Hin. contradiction.
Qed.

Lemma last_check_single votes x : votes <> [] -> (forall v, In v votes -> NoDup v /\ In x v) ->
  last_check votes [] x x = true.
Proof.
  intros Hne Hv. unfold last_check. cbn [is_nil negb app]. rewrite !andb_false_r. cbn [orb negb andb].
  destruct votes as [|v0 votes']; [congruence|].
  assert (M : memN x (flat_map (fun v => last_opt (filter (fun a => memN a [x; x]) (filter (fun a => memN a [x; x]) v)))
                               (v0 :: votes')) = true).
  { apply memN_last_opt. exists v0. destruct (Hv v0 (or_introl eq_refl)) as [Hnd Hx]. split; [now left|].
    rewrite filter_filter_and. set (f := fun a => memN a [x; x] && memN a [x; x]).
    assert (Fx : f x = true) by (unfold f; apply andb_true_iff; split; apply memN_In; now left).
    destruct (last_filter_max v0 f 0%N Hnd x Hx Fx) as (E1 & E2 & _). split.
    - intros E. assert (In x (filter f v0)) by (apply filter_In; auto). rewrite E in H. contradiction.
    - unfold f in E2. apply andb_true_iff in E2. destruct E2 as [E2 _]. apply memN_In in E2.
      simpl in E2. destruct E2 as [E2|[E2|[]]]; auto. }
  now rewrite M.
Qed.

Definition lg_len (st : dp_state) : nat := pa_len (s_longest st).

Section Progress.
Variables (alts : list N) (votes : list (list N)).
Variable pair_first : N -> N -> bool.
Variable ext_order : list (list N) -> list (list N).
Hypothesis Hext2 : forall l X, In X l -> In X (ext_order l).

Lemma ext_step_mono A st X : lg_len st <= lg_len (ext_step pair_first votes A st X).
Proof.
  unfold ext_step, lg_len. destruct (place pair_first A X votes) as [A' [|]]; cbn [s_longest].
  - destruct (Nat.ltb_spec (pa_len (s_longest st)) (pa_len A')); lia.
  - destruct (negb (pa_eqb A' A) && (pa_len (s_locked st) <? pa_len A')); cbn [s_longest]; lia.
Qed.

Lemma fold_mono {T} (f : dp_state -> T -> dp_state) l st :
  (forall s x, lg_len s <= lg_len (f s x)) -> lg_len st <= lg_len (fold_left f l st).
Proof.
  intros H. revert st. induction l as [|x l IH]; intros st; [simpl; lia|]. simpl.
  eapply Nat.le_trans; [apply (H st x)|apply IH].
Qed.

Lemma key_step_mono i m Ls remaining st e :
  lg_len st <= lg_len (key_step pair_first ext_order i m Ls votes remaining st e).
Proof.
  destruct e as [[bd Y] A]. unfold key_step.
  destruct (pa_len A + length remaining <? pa_len (s_longest st)); [lia|].
  apply fold_mono. intros s x. apply ext_step_mono.
Qed.

Lemma outer_step_mono m Ls st i :
  lg_len (fst st) <= lg_len (fst (outer_step pair_first ext_order m Ls votes st i)).
Proof.
  destruct st as [s remaining]. unfold outer_step. cbn [fst]. apply fold_mono. intros s' x. apply key_step_mono.
Qed.

Lemma fold_reach {T} (f : dp_state -> T -> dp_state) l st x k :
  (forall s y, lg_len s <= lg_len (f s y)) -> In x l -> (forall s, k <= lg_len (f s x)) ->
  k <= lg_len (fold_left f l st).
Proof.
  intros Hm Hx Hk. revert st. induction l as [|y l IH]; intros st; [contradiction|]. simpl.
  destruct Hx as [->|Hx]; [|now apply IH].
  eapply Nat.le_trans; [apply (Hk st)|]. now apply fold_mono.
Qed.

Theorem longest_axis_nonempty : NoDup alts -> alts <> [] -> votes <> [] ->
  (forall v, In v votes -> NoDup v /\ incl alts v) ->
  fst (longest_axis pair_first ext_order alts votes) <> [].
Proof.
  intros Hnd Hane Hvne Hv. unfold longest_axis. cbv zeta. cbn [fst].
  set (Ls := get_L_sets alts votes). set (m := length alts).
  set (st0 := (mk_dp init_table pa_empty pa_empty, alts)).
  set (stf := fst (fold_left (outer_step pair_first ext_order m Ls votes) (seq 1 m) st0)).
  assert (H2 : 2 <= lg_len stf).
  { unfold stf.
    assert (Ha0 : exists a0, In a0 alts) by (destruct alts as [|a0 ?] eqn:Ea; [congruence|exists a0; now left]).
    destruct Ha0 as (a0 & Ha0).
    assert (Hv0 : exists v0, In v0 votes) by (destruct votes as [|v0 ?] eqn:Ev; [congruence|exists v0; now left]).
    destruct Hv0 as (v0 & Hv0).
    assert (Hm : exists m', m = S m') by (unfold m; destruct alts eqn:Ea; [congruence|simpl; eauto]).
    destruct Hm as (m' & Hm). rewrite Hm. cbn [seq fold_left].
    apply Nat.le_trans with (lg_len (fst (outer_step pair_first ext_order (S m') Ls votes st0 1))).
    - (* the first round places a single alternative of L[1] on the empty axis *)
      unfold outer_step, st0. cbn [fst s_cur init_table fold_left].
      unfold key_step at 1. cbn [pa_len pa_empty fst snd length s_longest Nat.add].
      replace (S (0 + 0) + length alts <? S (0 + 0)) with false by (symmetry; apply Nat.ltb_ge; lia).
      assert (HL1 : nth 0 Ls [] <> []).
      { apply (L1_nonempty alts votes a0 v0); auto. now apply (proj2 (Hv v0 Hv0)). }
      destruct (nth 0 Ls []) as [|x L1'] eqn:EL; [congruence|].
      assert (Hx : In x alts).
      { apply (L_sets_incl alts votes (x :: L1')); [|now left].
        fold Ls. rewrite <- EL. destruct (nth_in_or_default 0 Ls []) as [H|H]; [assumption|]. rewrite H in EL. discriminate. }
      apply (fold_reach _ _ _ [x]).
      + intros s y. apply ext_step_mono.
      + unfold eligible. apply Hext2. apply nodup_In. cbn [Nat.sub]. rewrite EL. apply in_flat_map. exists x.
        split; [now left|]. apply in_flat_map. exists x. split.
        * apply dedupN_complete. apply in_or_app. left. now left.
        * rewrite last_check_single; [|congruence|].
          -- unfold mkset. rewrite N.eqb_refl. now left.
          -- intros v Hin. split; [apply (Hv v Hin)|]. now apply (proj2 (Hv v Hin)).
      + intros s. unfold ext_step, lg_len. cbn [place case_3 boundary pa_empty fst snd nth_error isS orb negb andb].
        cbn [s_longest]. cbn [pa_len fst snd length Nat.add].
        change (pa_len ([x], [])) with 2. destruct (Nat.ltb_spec (pa_len (s_longest s)) 2); [reflexivity|lia].
    - apply (fold_left_inv (outer_step pair_first ext_order (S m') Ls votes)
               (fun st => lg_len (fst (outer_step pair_first ext_order (S m') Ls votes st0 1)) <= lg_len (fst st))).
      + intros i _ s' Hs'. eapply Nat.le_trans; [exact Hs'|apply outer_step_mono].
      + lia. }
  intros E.
  assert (Hlen : 2 <= pa_len (if pa_len (s_longest stf) <? pa_len (s_locked stf) then s_locked stf else s_longest stf)).
  { unfold lg_len in H2. destruct (Nat.ltb_spec (pa_len (s_longest stf)) (pa_len (s_locked stf))); lia. }
  fold stf in E. unfold pa_elems, pa_len in *.
  destruct (if S (length (fst (s_longest stf)) + length (snd (s_longest stf))) <?
               S (length (fst (s_locked stf)) + length (snd (s_locked stf))) then s_locked stf else s_longest stf) as [l r].
  cbn [fst snd] in *. apply app_eq_nil in E. destruct E as [E1 ->]. 
  assert (l = []) by (destruct l; [reflexivity|]; simpl in E1; destruct (rev l); discriminate). subst. simpl in Hlen. lia.
Qed.
End Progress.

(* ---------------------------------------------------------------------------------------------- *)
(* 12. k_alt_partition_approx (C18): terminates and returns a valid partition into single-peaked axes *)

From PrefVerif Require Import Model.Partition.

Section Approx.
Variable pair_first : N -> N -> bool.
Variable ext_order : list (list N) -> list (list N).
Hypothesis Hext : forall l X, In X (ext_order l) <-> In X l.

Lemma axis_ok_of_sound votes axis : NoDup axis ->
  sp_axis_profile (map strictify (map (restrict_ranking axis) votes)) axis = true -> axis_ok votes axis = true.
Proof.
  intros Hnd Hsp. unfold axis_ok, sp_check_axis, spw_check_axis, restrict_profile. rewrite Hsp, andb_true_r.
  apply valid_axis_correct; [assumption|apply Permutation_refl].
Qed.

Lemma approx_loop_ok votes : votes <> [] ->
  forall fuel alts axes0, NoDup alts -> (forall v, In v votes -> NoDup v /\ incl alts v) -> length alts < fuel ->
  exists axes', approx_loop pair_first ext_order fuel alts votes axes0 = Ok (axes0 ++ axes') /\
                Permutation alts (concat axes') /\ forallb (axis_ok votes) axes' = true.
Proof.
  intros Hvne. induction fuel as [|f IH]; intros alts axes0 Hnd Hv Hlt; [lia|].
  destruct alts as [|a0 alts'] eqn:Ea.
  - exists []. simpl. rewrite app_nil_r. auto.
  - rewrite <- Ea in *. assert (Hane : alts <> []) by (rewrite Ea; discriminate).
    assert (Hext1 : forall l X, In X (ext_order l) -> In X l) by (intros l X; apply Hext).
    assert (Hext2 : forall l X, In X l -> In X (ext_order l)) by (intros l X; apply Hext).
    destruct (longest_axis_sound pair_first ext_order Hext1 alts votes Hnd Hv) as (S1 & S2 & S3 & S4).
    pose proof (longest_axis_nonempty alts votes pair_first ext_order Hext2 Hnd Hane Hvne Hv) as Hne.
    destruct (longest_axis pair_first ext_order alts votes) as [axis rest] eqn:EL. cbn [fst snd] in *.
    assert (Hrest : NoDup rest /\ incl rest alts /\ length rest < length alts).
    { assert (Hnd' : NoDup (axis ++ rest)) by (eapply Permutation_NoDup; eauto).
      split; [now apply NoDup_app_r in Hnd'|]. split.
      - intros a Ha. eapply Permutation_in; [apply Permutation_sym; exact S3|]. apply in_or_app. now right.
      - apply Permutation_length in S3. rewrite app_length in S3. destruct axis; [congruence|]. simpl in S3. lia. }
    destruct Hrest as (R1 & R2 & R3).
    destruct (IH rest (axes0 ++ [axis]) R1) as (axes' & E & P & F).
    + intros v Hin. destruct (Hv v Hin) as [N1 N2]. split; [assumption|]. intros a Ha. apply N2. now apply R2.
    + lia.
    + exists (axis :: axes'). split; [|split].
      * rewrite Ea. cbn [approx_loop]. rewrite <- Ea, EL, E, <- app_assoc. reflexivity.
      * simpl. eapply perm_trans; [exact S3|]. now apply Permutation_app_head.
      * simpl. rewrite F, andb_true_r. now apply axis_ok_of_sound.
Qed.

Theorem approx_valid alts votes : NoDup alts -> votes <> [] -> (forall v, In v votes -> NoDup v /\ incl alts v) ->
  exists axes, k_alt_partition_approx pair_first ext_order alts votes = Ok axes /\
               partition_check alts votes axes = true.
Proof.
  intros Hnd Hvne Hv. unfold k_alt_partition_approx.
  destruct (approx_loop_ok votes Hvne (S (length alts)) alts [] Hnd Hv (Nat.lt_succ_diag_r _)) as (axes & E & P & F).
  exists axes. split; [exact E|]. unfold partition_check. rewrite F, andb_true_r. now apply valid_axis_correct.
Qed.
End Approx.

(* ---------------------------------------------------------------------------------------------- *)
(* 13. no IndexError in last_check: the lists whose last element is taken are not empty            *)

Lemma last_check_defined (v Y : list N) x1 x2 : In x1 v ->
  filter (fun a => memN a ([x1; x2] ++ Y)) v <> [] /\
  filter (fun a => memN a [x1; x2]) (filter (fun a => memN a ([x1; x2] ++ Y)) v) <> [].
Proof.
  intros H1.
  assert (A : In x1 (filter (fun a => memN a ([x1; x2] ++ Y)) v)).
  { apply filter_In. split; [assumption|]. apply memN_In. now left. }
  assert (B : In x1 (filter (fun a => memN a [x1; x2]) (filter (fun a => memN a ([x1; x2] ++ Y)) v))).
  { apply filter_In. split; [assumption|]. apply memN_In. now left. }
  split; intros E; [rewrite E in A|rewrite E in B]; contradiction.
Qed.
