(* Properties/C08.v — placeholder until Proofs/CatIO.v is complete *)
From Coq Require Import List NArith String.
From PrefVerif Require Import Lib.Val Lib.Dec Lib.PyStr Model.Meta Model.CatIO.
Import ListNotations.
Example C08_tokenize_example :
  tokenize (lit "{1,2},{},4") = [lit "{1,2}"; lit ","; lit "{}"; lit ",4"].
Proof. vm_compute. reflexivity. Qed.
Print Assumptions C08_tokenize_example.
