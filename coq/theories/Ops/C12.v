(* Ops/C12.v — protocol entry points for property C12 (nearly-single-peaked optimisers).
   payload conventions: order = list of classes (lists of N); profile = list of orders (instance.orders);
   alts / axis / D = list of N; V = list of indices into the profile; k = int. *)
From Coq Require Import List ZArith NArith String.
From PrefVerif Require Import Lib.Val Model.SP Model.Deletion Model.ILPEnc Model.ELPDP Model.MaxAxis.
Import ListNotations.
Open Scope string_scope.

Definition d_alts (v : val) : list N := dlist dN v.
Definition d_order (v : val) : order := dlist (dlist dN) v.
Definition d_profile (v : val) : list order := dlist d_order v.
Definition d_idx (v : val) : list nat := dlist dnat v.

(* (alts profile) -> nat *)
Definition op_min_alt (v : val) : val := enat (min_alt_del (d_alts (dnth 0 v)) (d_profile (dnth 1 v))).
Definition op_min_vot (v : val) : val := enat (min_vot_del (d_alts (dnth 0 v)) (d_profile (dnth 1 v))).
(* (alts profile k axis D) -> bool *)
Definition op_cert_alt (v : val) : val :=
  ebool (cert_alt (d_alts (dnth 0 v)) (d_profile (dnth 1 v)) (dnat (dnth 2 v)) (d_alts (dnth 3 v)) (d_alts (dnth 4 v))).
(* (alts profile k axis V) -> bool *)
Definition op_cert_vot (v : val) : val :=
  ebool (cert_vot (d_alts (dnth 0 v)) (d_profile (dnth 1 v)) (dnat (dnth 2 v)) (d_alts (dnth 3 v)) (d_idx (dnth 4 v))).
(* (S alts profile) -> optimum of the profile restricted to the alternatives of S (lower bounds: opt_restrict_mono) *)
Definition op_core_alt (v : val) : val :=
  let S := d_alts (dnth 0 v) in
  enat (min_alt_del (restrict_alts S (d_alts (dnth 1 v))) (map (restrict_order S) (d_profile (dnth 2 v)))).
Definition op_core_vot (v : val) : val :=
  let S := d_alts (dnth 0 v) in
  enat (min_vot_del (restrict_alts S (d_alts (dnth 1 v))) (map (restrict_order S) (d_profile (dnth 2 v)))).
(* (alts profile D) -> bool ; (alts profile V) -> bool : is this deletion set sufficient? (diagnostics) *)
Definition op_alt_ok (v : val) : val :=
  ebool (alt_del_ok (d_alts (dnth 0 v)) (d_profile (dnth 1 v)) (d_alts (dnth 2 v))).
Definition op_vot_ok (v : val) : val :=
  ebool (vot_del_ok (d_alts (dnth 0 v)) (d_profile (dnth 1 v)) (d_idx (dnth 2 v))).

(* ---- the mirrored ILP models (Model/ILPEnc.v) ----
   var: (0 a b) leftof_a_b | (1 a) pos_a | (2 v) delVoter_v | (3 a) delAlt_a ;  term: (coeff var) ;
   constraint: (terms rel rhs), rel 0 <=, 1 >=, 2 == , coefficients and rhs multiplied by 2 ;  vdecl: (var lb ub) ;
   answer: (vdecls constraints objective-terms) *)
Definition e_var (v : var) : val :=
  match v with
  | LeftOf a b => VL [VI 0%Z; enat a; enat b]
  | Pos a => VL [VI 1%Z; enat a]
  | DelVoter v => VL [VI 2%Z; enat v]
  | DelAlt a => VL [VI 3%Z; enat a]
  end.
Definition e_term (t : Z * var) : val := VL [VI (fst t); e_var (snd t)].
Definition e_rel (r : rel) : val := VI (match r with Le => 0 | Ge => 1 | Eq => 2 end)%Z.
Definition e_cstr (c : cstr) : val := VL [elist e_term (c_lhs c); e_rel (c_rel c); VI (c_rhs c)].
Definition e_vdecl (d : vdecl) : val := VL [e_var (v_var d); VI (v_lb d); VI (v_ub d)].
Definition e_ilp (M : ilp) : val :=
  VL [elist e_vdecl (i_vars M); elist e_cstr (i_cstrs M); elist e_term (i_obj M)].
(* (kind alts profile) -> model ; kind 0 sp, 1 voter deletion, 2 alternative deletion *)
Definition op_ilp_constraints (v : val) : val :=
  let alts := d_alts (dnth 1 v) in
  let p := d_profile (dnth 2 v) in
  match dnat (dnth 0 v) with
  | 0 => e_ilp (sp_ilp alts p)
  | 1 => e_ilp (votdel_ilp alts p)
  | _ => e_ilp (altdel_ilp alts p)
  end.

(* ---- the mirrored dynamic programme (Model/ELPDP.v), votes = flat rankings ----
   (alts votes) -> (axis removed) ;  (alts votes) -> result (list of axes) *)
Definition d_votes (v : val) : list (list N) := dlist (dlist dN) v.
Definition op_elp (v : val) : val :=
  let r := k_alternative_deletion std_pair_first std_ext_order (d_alts (dnth 0 v)) (d_votes (dnth 1 v)) in
  VL [elist eN (fst r); elist eN (snd r)].
Definition op_elp_approx (v : val) : val :=
  eresult (elist (elist eN))
          (k_alt_partition_approx std_pair_first std_ext_order (d_alts (dnth 0 v)) (d_votes (dnth 1 v))).

(* (alts votes) -> nat : the fast verified reference for the alternative-deletion optimum of a strict profile *)
Definition op_fast_min_alt (v : val) : val := enat (fast_min_alt (d_alts (dnth 0 v)) (d_votes (dnth 1 v))).

Definition ops : optable :=
  [ ("c12.min_alt", op_min_alt); ("c12.min_vot", op_min_vot); ("c12.cert_alt", op_cert_alt);
    ("c12.cert_vot", op_cert_vot); ("c12.core_alt", op_core_alt); ("c12.core_vot", op_core_vot);
    ("c12.alt_ok", op_alt_ok); ("c12.vot_ok", op_vot_ok); ("c12.ilp_constraints", op_ilp_constraints);
    ("c12.elp", op_elp); ("c12.elp_approx", op_elp_approx); ("c12.fast_min_alt", op_fast_min_alt) ].
