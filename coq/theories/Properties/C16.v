(* Properties/C16.v — autocorrect parsing yields a normal form and conserves voters.
   (first stage: non-vacuity examples; the theorems follow) *)
From Coq Require Import List NArith Bool String.
From PrefVerif Require Import Lib.Val Lib.Dec Lib.PyStr Model.Meta Model.Autocorrect.
From PrefVerif Require Model.OrdIO Model.CatIO.
Import ListNotations.
Open Scope string_scope.

Definition dirty_ord : list text :=
  [lit "# NUMBER VOTERS: 99"; lit "# ALTERNATIVE NAME 1: X"; lit "# ALTERNATIVE NAME 2: X";
   lit "# ALTERNATIVE NAME 3: X__1"; lit "# ALTERNATIVE NAME 4: X__1";
   lit "2: 1,2"; lit "3: 1, 2"; lit "1: 2,1"].

Example dirty_ord_parses :
  rmap (fun i => (alt_names (OrdIO.o_meta i), OrdIO.o_mult i, num_voters (OrdIO.o_meta i), OrdIO.o_num_unique i,
                  num_alternatives (OrdIO.o_meta i)))
       (OrdIO.ord_parse true false (meta0 (lit "soc")) dirty_ord)
  = Ok ([(1, lit "X"); (2, lit "X__2"); (3, lit "X__1"); (4, lit "X__1__1")]%N,
        [([[1]; [2]], 5); ([[2]; [1]], 1)]%N, 6%N, 2%N, 4%N).
Proof. vm_compute. reflexivity. Qed.
