(* Properties/C03.v — C03: single-peakedness of strict complete profiles is decided exactly, with a valid axis.

   Shape (DESIGN §1, (R)): is_single_peaked (Escoffier-Lang-Ozturk) is NOT proved; it is compared by the harness with
   the verified reference sp_decide (enumeration of all axes) where that can be run, its axis goes through the
   verified checker sp_check_axis at every size, and negatives on large inputs are justified by heredity
   (sp_core_refutes).  The theorems below pin down reference and checker for all sizes.

   A strict complete order is a ranking r (flat list, best first) with Permutation alts r; firstn k r are the voter's
   k most preferred alternatives; contiguous S axis (Lib/Contig.v): axis = l1 ++ mid ++ l2 with mid and S having the
   same elements.  The profile is the list of distinct stored orders; multiplicities play no role in the property
   (nor in is_single_peaked) - sp_decide_set_ext / sp_decide_reorder make "any multiplicities, stored in any order"
   precise. *)
From Coq Require Import List NArith Bool Permutation.
From PrefVerif Require Import Lib.Val Lib.Contig Model.SP Model.ELO Proofs.SP Proofs.ELO.
Import ListNotations.

(* ---- "True exactly when the alternatives can be arranged on a line so that, for every voter and every k, the
        voter's k most preferred alternatives are contiguous on the line" ---- *)
Theorem sp_decide_correct : forall (alts : list N) (rs : list ranking),
  NoDup alts -> Forall (fun r => Permutation alts r) rs ->
  (sp_decide alts rs = true <->
   exists axis, Permutation alts axis /\ forall r, In r rs -> forall k, contiguous (firstn k r) axis).
Proof. exact Proofs.SP.sp_decide_correct. Qed.
Print Assumptions sp_decide_correct.

(* ---- "the axis it returns lists every alternative exactly once and every voter is single-peaked with respect to
        it": the checker run on the returned axis accepts exactly such axes ---- *)
Theorem sp_check_axis_correct : forall (alts : list N) (rs : list ranking) (axis : list N),
  NoDup alts -> Forall (fun r => Permutation alts r) rs ->
  (sp_check_axis alts rs axis = true <->
   (NoDup axis /\ forall a, In a axis <-> In a alts) /\
   forall r, In r rs -> forall k, contiguous (firstn k r) axis).
Proof. exact Proofs.SP.sp_check_axis_correct. Qed.
Print Assumptions sp_check_axis_correct.

(* ---- the acceptance relation of the correspondence is the C03 statement for the observed pair (verdict, axis) ---- *)
Theorem C03 : forall (alts : list N) (rs : list ranking) (verdict : bool) (axis : list N),
  NoDup alts -> Forall (fun r => Permutation alts r) rs ->
  (verdict = sp_decide alts rs /\ (verdict = true -> sp_check_axis alts rs axis = true))
  <->
  ((verdict = true <->
    exists ax, Permutation alts ax /\ forall r, In r rs -> forall k, contiguous (firstn k r) ax) /\
   (verdict = true ->
    (NoDup axis /\ forall a, In a axis <-> In a alts) /\
    forall r, In r rs -> forall k, contiguous (firstn k r) axis)).
Proof. exact Proofs.SP.C03_relation. Qed.
Print Assumptions C03.

(* ---- the ALGORITHM: Model/ELO.v mirrors is_single_peaked (Escoffier-Lang-Ozturk) statement by statement; the
        harness checks on every case, at every size, that the implementation's verdict equals the mirror's.
        For every well-formed strict profile (NoDup alts, every vote a permutation of alts, at least one vote):
        the while loop stops within num_alternatives rounds, no Python error (IndexError / ValueError, in particular
        the two "We should never have ended up here" branches) is reachable, and a positive answer comes with an
        axis that lists every alternative exactly once and for which every voter is single-peaked. ---- *)
Theorem elo_terminates : forall (alts : list N) (prefs : list ranking),
  NoDup alts /\ Forall (fun v => Permutation alts v) prefs /\ prefs <> [] ->
  elo alts prefs <> Err OutOfFuel.
Proof. exact Proofs.ELO.elo_terminates. Qed.
Print Assumptions elo_terminates.

Theorem elo_no_error : forall (alts : list N) (prefs : list ranking),
  NoDup alts /\ Forall (fun v => Permutation alts v) prefs /\ prefs <> [] ->
  exists verdict axis, elo alts prefs = Ok (verdict, axis).
Proof. exact Proofs.ELO.elo_no_error. Qed.
Print Assumptions elo_no_error.

Theorem elo_sound : forall (alts : list N) (prefs : list ranking) (axis : list N),
  NoDup alts /\ Forall (fun v => Permutation alts v) prefs /\ prefs <> [] ->
  elo alts prefs = Ok (true, axis) ->
  (NoDup axis /\ forall a, In a axis <-> In a alts) /\
  forall r, In r prefs -> forall k, contiguous (firstn k r) axis.
Proof. exact Proofs.ELO.elo_sound_spec. Qed.
Print Assumptions elo_sound.

(* Escoffier-Lang-Ozturk correctness: every single-peaked profile is accepted (no premature "3 last candidates",
   no contradiction in cases (c), the candidate axis of case 2.(d) passes the test). *)
Theorem elo_complete : forall (alts : list N) (prefs : list ranking),
  NoDup alts /\ Forall (fun v => Permutation alts v) prefs /\ prefs <> [] ->
  (exists ax, Permutation alts ax /\ forall r, In r prefs -> forall k, contiguous (firstn k r) ax) ->
  exists axis, elo alts prefs = Ok (true, axis).
Proof. exact Proofs.ELO.elo_complete. Qed.
Print Assumptions elo_complete.

(* the whole C03 statement, for the mirrored algorithm itself *)
Theorem elo_correct : forall (alts : list N) (prefs : list ranking),
  NoDup alts /\ Forall (fun v => Permutation alts v) prefs /\ prefs <> [] ->
  exists verdict axis, elo alts prefs = Ok (verdict, axis) /\
    (verdict = true <->
     exists ax, Permutation alts ax /\ forall r, In r prefs -> forall k, contiguous (firstn k r) ax) /\
    (verdict = true ->
     (NoDup axis /\ forall a, In a axis <-> In a alts) /\
     forall r, In r prefs -> forall k, contiguous (firstn k r) axis).
Proof. exact Proofs.ELO.elo_correct. Qed.
Print Assumptions elo_correct.

Theorem elo_agrees_reference : forall (alts : list N) (prefs : list ranking),
  NoDup alts /\ Forall (fun v => Permutation alts v) prefs /\ prefs <> [] ->
  exists axis, elo alts prefs = Ok (sp_decide alts prefs, axis).
Proof. exact Proofs.ELO.elo_agrees_reference. Qed.
Print Assumptions elo_agrees_reference.

(* ---- heredity: a single-peaked profile stays single-peaked on every subset of the alternatives; hence a small
        refuted core refutes the whole profile ---- *)
Theorem sp_restrict : forall (alts : list N) (rs : list ranking) (S : list N),
  SP alts rs -> SP (restrict_alts S alts) (map (restrict_ranking S) rs).
Proof. exact Proofs.SP.sp_restrict_strict. Qed.
Print Assumptions sp_restrict.

Theorem sp_core_refutes : forall (S alts : list N) (rs core : list ranking),
  NoDup alts -> Forall (fun r => Permutation alts r) rs ->
  (forall r, In r core <-> In r (map (restrict_ranking S) rs)) ->
  sp_decide (restrict_alts S alts) core = false ->
  ~ exists axis, Permutation alts axis /\ forall r, In r rs -> forall k, contiguous (firstn k r) axis.
Proof. exact Proofs.SP.sp_core_refutes. Qed.
Print Assumptions sp_core_refutes.

(* ---- "arbitrary ids ... any multiplicities, stored in any order" ---- *)
Theorem sp_decide_relabel : forall (f : N -> N), (forall x y, f x = f y -> x = y) ->
  forall (alts : list N) (rs : list ranking),
  sp_decide (map f alts) (map (map f) rs) = sp_decide alts rs.
Proof. exact Proofs.SP.sp_decide_relabel. Qed.
Print Assumptions sp_decide_relabel.

Theorem sp_decide_reorder : forall (alts : list N) (rs rs' : list ranking),
  Permutation rs rs' -> sp_decide alts rs = sp_decide alts rs'.
Proof. exact Proofs.SP.sp_decide_reorder. Qed.
Print Assumptions sp_decide_reorder.

Theorem sp_decide_set_ext : forall (alts : list N) (rs rs' : list ranking),
  (forall r, In r rs <-> In r rs') -> sp_decide alts rs = sp_decide alts rs'.
Proof. exact Proofs.SP.sp_decide_set_ext. Qed.
Print Assumptions sp_decide_set_ext.

(* ---- the weak-order notion of C11 specialises to this one ---- *)
Theorem strict_agree : forall (alts : list N) (rs : list ranking), SPw alts (map strictify rs) <-> SP alts rs.
Proof. exact Proofs.SP.strict_agree. Qed.
Print Assumptions strict_agree.

(* ---- non-vacuity ---- *)
Open Scope N_scope.

Example C03_example_sp :
  let alts := [1;2;3;4] in
  let rs := [ [2;3;1;4] ; [3;4;2;1] ; [1;2;3;4] ] in
  NoDup alts /\ Forall (fun r => Permutation alts r) rs /\
  sp_decide alts rs = true /\ sp_check_axis alts rs [4;3;2;1] = true /\
  sp_check_axis alts rs [4;3;2;1;1] = false /\ sp_check_axis alts rs [1;3;2;4] = false.
Proof.
  cbv zeta. split; [apply nodupN_correct; vm_compute; reflexivity|]. split.
  - repeat constructor; apply valid_axis_correct;
      try (apply nodupN_correct; vm_compute; reflexivity); vm_compute; reflexivity.
  - repeat split; vm_compute; reflexivity.
Qed.

(* the mirror run on the minimised profile of the repaired defect F1 (case 2.(d) after a common bottom), on a
   cyclic profile, and on a 6-alternative profile *)
Example C03_example_elo :
  elo [1;2;3;4;5] [ [1;2;3;4;5] ; [4;3;1;2;5] ] = Ok (true, [5;4;3;1;2]) /\
  elo [1;2;3] [ [1;2;3] ; [2;3;1] ; [3;1;2] ] = Ok (false, []) /\
  elo [0;1;2;3;9;7] [ [2;1;3;0;9;7] ; [1;2;0;3;9;7] ; [3;2;1;0;9;7] ] = Ok (true, [7;9;0;1;2;3]).
Proof. repeat split; vm_compute; reflexivity. Qed.

(* the Condorcet cycle is not single-peaked: refuted by the reference, hence (sp_decide_correct) by the definition *)
Example C03_example_not_sp :
  sp_decide [1;2;3] [ [1;2;3] ; [2;3;1] ; [3;1;2] ] = false /\
  ~ exists axis, Permutation [1;2;3] axis /\
                 forall r, In r [ [1;2;3] ; [2;3;1] ; [3;1;2] ] -> forall k, contiguous (firstn k r) axis.
Proof.
  split; [vm_compute; reflexivity|]. intros H. apply Proofs.SP.sp_decide_correct in H.
  - vm_compute in H. discriminate.
  - apply nodupN_correct. vm_compute. reflexivity.
  - repeat constructor; apply valid_axis_correct;
      try (apply nodupN_correct; vm_compute; reflexivity); vm_compute; reflexivity.
Qed.
