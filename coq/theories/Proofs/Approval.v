(* Proofs/Approval.v — lemmas about Model/Approval.v: specifications of the approval domains, correctness of
   the witness checkers and reference deciders, the reductions to the consecutive-ones property, the
   Euclidean construction, is_part / is_2_part. *)
From Coq Require Import List Arith NArith ZArith QArith Qabs Bool Lia Permutation.
From PrefVerif Require Import Lib.Perms Model.C1P Model.Approval Proofs.C1P.
Import ListNotations.
Local Open Scope nat_scope.

(* ------------------------------------------------------------------------------------------------ *)
(* membership, permutations of the alternatives *)
Lemma mem_iff a l : mem a l = true <-> In a l.
Proof.
  unfold mem. rewrite existsb_exists. split.
  - intros (x & Hx & E). apply N.eqb_eq in E. now subst.
  - intros H. exists a. split; [assumption|apply N.eqb_refl].
Qed.

Lemma mem_false_iff a l : mem a l = false <-> ~ In a l.
Proof. rewrite <- mem_iff. destruct (mem a l); split; congruence. Qed.

Lemma count_count_occ a l : count a l = count_occ N.eq_dec l a.
Proof.
  unfold count. induction l as [|x t IH]; simpl; [reflexivity|].
  destruct (N.eq_dec x a) as [->|Hne].
  - rewrite N.eqb_refl. simpl. now rewrite IH.
  - destruct (N.eqb_spec a x) as [->|_]; [congruence|exact IH].
Qed.

Theorem perm_of_correct alts order : perm_of alts order = true <-> Permutation alts order.
Proof.
  unfold perm_of. rewrite forallb_forall, (Permutation_count_occ N.eq_dec). split.
  - intros H x. destruct (in_dec N.eq_dec x (alts ++ order)) as [Hin|Hnin].
    + specialize (H x Hin). apply Nat.eqb_eq in H. now rewrite <- !count_count_occ.
    + assert (H1 : ~ In x alts) by (intros H1; apply Hnin, in_or_app; now left).
      assert (H2 : ~ In x order) by (intros H2; apply Hnin, in_or_app; now right).
      apply (count_occ_not_In N.eq_dec) in H1. apply (count_occ_not_In N.eq_dec) in H2. congruence.
  - intros H x _. apply Nat.eqb_eq. rewrite !count_count_occ. apply H.
Qed.

(* ------------------------------------------------------------------------------------------------ *)
(* specifications (Prop) *)
Definition Approves (b : list N) (a : N) : Prop := In a b.

(* CI: some order of all the alternatives makes every approval set an interval *)
Definition CI_order (alts : list N) (ballots : list (list N)) (order : list N) : Prop :=
  Permutation alts order /\ Forall (fun b => Interval (fun a => In a b) order) ballots.
Definition CI alts ballots : Prop := exists order, CI_order alts ballots order.
(* CEI: ... a prefix or a suffix *)
Definition CEI_order (alts : list N) (ballots : list (list N)) (order : list N) : Prop :=
  Permutation alts order /\ Forall (fun b => Extremal (fun a => In a b) order) ballots.
Definition CEI alts ballots : Prop := exists order, CEI_order alts ballots order.
(* VI: some order of the ballots (indices 0..n-1) makes, for every alternative, the ballots approving it consecutive *)
Definition VI_order (alts : list N) (ballots : list (list N)) (border : list nat) : Prop :=
  Permutation (seq 0 (length ballots)) border /\
  Forall (fun a => Interval (fun i => In a (ballot_at ballots i)) border) alts.
Definition VI alts ballots : Prop := exists border, VI_order alts ballots border.
Definition VEI_order (alts : list N) (ballots : list (list N)) (border : list nat) : Prop :=
  Permutation (seq 0 (length ballots)) border /\
  Forall (fun a => Extremal (fun i => In a (ballot_at ballots i)) border) alts.
Definition VEI alts ballots : Prop := exists border, VEI_order alts ballots border.
(* WSC (documented reading): for every ordered pair (a, b) the ballots approving a but not b are consecutive *)
Definition WSC_order (alts : list N) (ballots : list (list N)) (border : list nat) : Prop :=
  Permutation (seq 0 (length ballots)) border /\
  forall a b, In a alts -> In b alts ->
    Interval (fun i => In a (ballot_at ballots i) /\ ~ In b (ballot_at ballots i)) border.
Definition WSC alts ballots : Prop := exists border, WSC_order alts ballots border.

(* ------------------------------------------------------------------------------------------------ *)
(* checkers = specifications *)
Theorem ci_check_correct alts ballots order :
  ci_check alts ballots order = true <-> CI_order alts ballots order.
Proof.
  unfold ci_check, CI_order. rewrite andb_true_iff, perm_of_correct, forallb_forall, Forall_forall.
  split; intros [HP H]; (split; [exact HP|]); intros b Hb; specialize (H b Hb);
    apply (contig01_map (fun a => mem a b) (fun a => In a b) (fun a => mem_iff a b)); exact H.
Qed.

Theorem cei_check_correct alts ballots order :
  cei_check alts ballots order = true <-> CEI_order alts ballots order.
Proof.
  unfold cei_check, CEI_order. rewrite andb_true_iff, perm_of_correct, forallb_forall, Forall_forall.
  split; intros [HP H]; (split; [exact HP|]); intros b Hb; specialize (H b Hb);
    apply (extremal01_map (fun a => mem a b) (fun a => In a b) (fun a => mem_iff a b)); exact H.
Qed.

Theorem vi_check_correct alts ballots border :
  vi_check alts ballots border = true <-> VI_order alts ballots border.
Proof.
  unfold vi_check, VI_order. rewrite andb_true_iff, perm_of_seq_correct, forallb_forall, Forall_forall.
  split; intros [HP H]; (split; [exact HP|]); intros a Ha; specialize (H a Ha);
    apply (contig01_map (fun i => mem a (ballot_at ballots i)) (fun i => In a (ballot_at ballots i))
             (fun i => mem_iff a (ballot_at ballots i))); exact H.
Qed.

Theorem vei_check_correct alts ballots border :
  vei_check alts ballots border = true <-> VEI_order alts ballots border.
Proof.
  unfold vei_check, VEI_order. rewrite andb_true_iff, perm_of_seq_correct, forallb_forall, Forall_forall.
  split; intros [HP H]; (split; [exact HP|]); intros a Ha; specialize (H a Ha);
    apply (extremal01_map (fun i => mem a (ballot_at ballots i)) (fun i => In a (ballot_at ballots i))
             (fun i => mem_iff a (ballot_at ballots i))); exact H.
Qed.

Lemma wsc_entry_iff a b bl : mem a bl && negb (mem b bl) = true <-> In a bl /\ ~ In b bl.
Proof. rewrite andb_true_iff, negb_true_iff, mem_iff, mem_false_iff. reflexivity. Qed.

Theorem wsc_check_correct alts ballots border :
  wsc_check alts ballots border = true <-> WSC_order alts ballots border.
Proof.
  unfold wsc_check, WSC_order. rewrite andb_true_iff, perm_of_seq_correct, forallb_forall.
  split; intros [HP H]; (split; [exact HP|]).
  - intros a b Ha Hb. specialize (H a Ha). rewrite forallb_forall in H. specialize (H b Hb).
    apply (contig01_map (fun i => mem a (ballot_at ballots i) && negb (mem b (ballot_at ballots i)))
             (fun i => In a (ballot_at ballots i) /\ ~ In b (ballot_at ballots i))
             (fun i => wsc_entry_iff a b (ballot_at ballots i))). exact H.
  - intros a Ha. rewrite forallb_forall. intros b Hb.
    apply (contig01_map (fun i => mem a (ballot_at ballots i) && negb (mem b (ballot_at ballots i)))
             (fun i => In a (ballot_at ballots i) /\ ~ In b (ballot_at ballots i))
             (fun i => wsc_entry_iff a b (ballot_at ballots i))). now apply H.
Qed.

(* reference deciders = existence of a witness *)
Theorem ci_decide_correct alts ballots : ci_decide alts ballots = true <-> CI alts ballots.
Proof.
  unfold ci_decide, CI. rewrite (exists_perm_dec N (CI_order alts ballots) _ (ci_check_correct alts ballots)).
  split; intros (o & H); exists o; [apply H|split; [apply H|exact H]].
Qed.
Theorem cei_decide_correct alts ballots : cei_decide alts ballots = true <-> CEI alts ballots.
Proof.
  unfold cei_decide, CEI. rewrite (exists_perm_dec N (CEI_order alts ballots) _ (cei_check_correct alts ballots)).
  split; intros (o & H); exists o; [apply H|split; [apply H|exact H]].
Qed.
Theorem vi_decide_correct alts ballots : vi_decide alts ballots = true <-> VI alts ballots.
Proof.
  unfold vi_decide, VI. rewrite (exists_perm_dec nat (VI_order alts ballots) _ (vi_check_correct alts ballots)).
  split; intros (o & H); exists o; [apply H|split; [apply H|exact H]].
Qed.
Theorem vei_decide_correct alts ballots : vei_decide alts ballots = true <-> VEI alts ballots.
Proof.
  unfold vei_decide, VEI. rewrite (exists_perm_dec nat (VEI_order alts ballots) _ (vei_check_correct alts ballots)).
  split; intros (o & H); exists o; [apply H|split; [apply H|exact H]].
Qed.
Theorem wsc_decide_correct alts ballots : wsc_decide alts ballots = true <-> WSC alts ballots.
Proof.
  unfold wsc_decide, WSC. rewrite (exists_perm_dec nat (WSC_order alts ballots) _ (wsc_check_correct alts ballots)).
  split; intros (o & H); exists o; [apply H|split; [apply H|exact H]].
Qed.
