From Coq Require Import List NArith String Ascii DecimalString DecimalN Permutation Lia.
Import ListNotations.
Fixpoint insert_all {A} (x:A) (l:list A) : list (list A) :=
  match l with [] => [[x]] | y::ys => (x::y::ys) :: map (cons y) (insert_all x ys) end.
Fixpoint perms {A} (l:list A) : list (list A) :=
  match l with [] => [[]] | x::xs => flat_map (insert_all x) (perms xs) end.
Definition show_N (n:N) : string := NilZero.string_of_uint (N.to_uint n).
Definition read_N (s:string) : option N := option_map N.of_uint (NilZero.uint_of_string s).
Lemma read_show n : read_N (show_N n) = Some n.
Proof. unfold read_N, show_N. rewrite NilZero.usu.
  - simpl. now rewrite DecimalN.Unsigned.of_to.
  - destruct n; simpl; try discriminate. apply DecimalPos.Unsigned.to_uint_nonnil. Qed.
Print Assumptions read_show.
Require Extraction ExtrOcamlBasic.
Extraction "s.ml" perms show_N read_N.
