(* Proofs/CatIO.v — lemmas about Model/CatIO.v (categorical write / parse), used by Properties/C08.v.
   Part A: the ballot printer is inverted by tokenizer + category construction (C08_ties).
   Part B: one written ballot line is read back (ballot_of_line (ballot_line ..)).
   Part C: the stable sort (C08_sorted, C08_idempotent).
   Part D: header lines and the whole file (C08_roundtrip). *)
From Coq Require Import String List Arith NArith Bool Lia Permutation Sorted.
From PrefVerif Require Import Lib.Val Lib.Dec Lib.PyStr Model.Meta Model.CatIO Proofs.Meta.
Import ListNotations.

(* ================================================================================================ *)
(* A.0 small facts about result, split_on, characters                                               *)
(* ================================================================================================ *)
Lemma rseq_app {T} (l1 l2 : list (result T)) x1 x2 :
  rseq l1 = Ok x1 -> rseq l2 = Ok x2 -> rseq (l1 ++ l2) = Ok (x1 ++ x2).
Proof.
  revert x1. induction l1 as [|r l1 IH]; intros x1 H1 H2; simpl in *.
  - injection H1 as <-. exact H2.
  - destruct r as [a|e]; simpl in *; [|discriminate].
    destruct (rseq l1) as [y|e]; simpl in *; [|discriminate].
    injection H1 as <-. now rewrite (IH y eq_refl H2).
Qed.

Lemma split_on_nonnil sep s : split_on sep s <> [].
Proof.
  destruct s as [|c r]; simpl; [discriminate|].
  destruct (N.eqb c sep); [discriminate|]. destruct (split_on sep r); discriminate.
Qed.

Lemma split_on_app sep a b : split_on sep (a ++ sep :: b) = split_on sep a ++ split_on sep b.
Proof.
  induction a as [|c a IH]; simpl.
  - now rewrite N.eqb_refl.
  - destruct (N.eqb c sep); [now rewrite IH|].
    rewrite IH. pose proof (split_on_nonnil sep a) as NE.
    destruct (split_on sep a) as [|f fs]; [now elim NE|reflexivity].
Qed.

Definition lacks (x : N) (s : text) : bool := forallb (fun c => negb (N.eqb c x)) s.

Lemma split_on_none sep s : lacks sep s = true -> split_on sep s = [s].
Proof.
  induction s as [|c r IH]; simpl; [reflexivity|]. intros H. apply andb_true_iff in H as [Hc Hr].
  apply negb_true_iff in Hc. rewrite Hc. now rewrite (IH Hr).
Qed.

Lemma lacks_app x a b : lacks x (a ++ b) = lacks x a && lacks x b.
Proof. apply forallb_app. Qed.

Lemma forallb_impl {A} (f g : A -> bool) l :
  (forall x, f x = true -> g x = true) -> forallb f l = true -> forallb g l = true.
Proof. intros I. rewrite !forallb_forall. intros H x Hx. apply I, H, Hx. Qed.

Lemma digits_lack x s : is_digit x = false -> forallb is_digit s = true -> lacks x s = true.
Proof.
  intros Hx. apply forallb_impl. intros c Hc. apply negb_true_iff. apply N.eqb_neq. intros ->. congruence.
Qed.

Lemma show_N_lacks x n : is_digit x = false -> lacks x (show_N n) = true.
Proof. intros Hx. apply digits_lack; [exact Hx|apply show_N_digits]. Qed.

Lemma digit_is_run c : is_digit c = true -> is_run c = true.
Proof. unfold is_run. now intros ->. Qed.

Lemma show_N_runs n : forallb is_run (show_N n) = true.
Proof. eapply forallb_impl; [apply digit_is_run|apply show_N_digits]. Qed.

Lemma run_not_open c : is_run c = true -> (c =? 123)%N = false.
Proof. intros H. apply N.eqb_neq. intros ->. discriminate. Qed.
Lemma run_not_close c : is_run c = true -> (c =? 125)%N = false.
Proof. intros H. apply N.eqb_neq. intros ->. discriminate. Qed.

(* ================================================================================================ *)
(* A.1 ints_of                                                                                      *)
(* ================================================================================================ *)
Lemma ints_of_nil : ints_of [] = Ok [].
Proof. reflexivity. Qed.

Lemma ints_of_app_comma a b la lb :
  ints_of a = Ok la -> ints_of b = Ok lb -> ints_of (a ++ 44%N :: b) = Ok (la ++ lb).
Proof.
  unfold ints_of. intros Ha Hb. rewrite split_on_app, filter_app, map_app. now apply rseq_app.
Qed.

Lemma ints_of_show n : ints_of (show_N n) = Ok [n].
Proof.
  unfold ints_of. rewrite split_on_none by (now apply show_N_lacks).
  pose proof (show_N_nonempty n) as NE. simpl. destruct (show_N n) eqn:E; [now elim NE|].
  simpl. rewrite <- E. now rewrite py_int_show_N.
Qed.

Lemma join_comma_cons a b r :
  join [44%N] (show_N a :: show_N b :: r) = show_N a ++ 44%N :: join [44%N] (show_N b :: r).
Proof. reflexivity. Qed.

Lemma ints_of_join c : ints_of (join [44%N] (map show_N c)) = Ok c.
Proof.
  induction c as [|a c IH]; [reflexivity|].
  destruct c as [|b c]; [apply ints_of_show|].
  simpl map in *. rewrite join_comma_cons.
  apply (ints_of_app_comma _ _ [a] (b :: c)); [apply ints_of_show|exact IH].
Qed.

Lemma runs_join c : forallb is_run (join [44%N] (map show_N c)) = true.
Proof.
  induction c as [|a c IH]; [reflexivity|].
  destruct c as [|b c]; [apply show_N_runs|].
  simpl map in *. rewrite join_comma_cons. rewrite forallb_app. rewrite show_N_runs. simpl.
  exact IH.
Qed.

(* ================================================================================================ *)
(* A.2 categories of one token                                                                      *)
(* ================================================================================================ *)
Definition single (a : N) : list N := [a].

Lemma cats_of_token_bare s l :
  forallb is_run s = true -> ints_of s = Ok l -> cats_of_token s = Ok (map single l).
Proof.
  intros R H. unfold cats_of_token. destruct s as [|c s'].
  - simpl. rewrite ints_of_nil in H. injection H as <-. reflexivity.
  - simpl in R. apply andb_true_iff in R as [Rc _]. pose proof (run_not_open c Rc) as NO.
    assert (E1 : teqb (c :: s') (lit "{}") = false) by (simpl; now rewrite NO).
    assert (E2 : startswith (lit "{") (c :: s') = false).
    { change (startswith (lit "{") (c :: s')) with (N.eqb 123 c && true).
      rewrite N.eqb_sym. now rewrite NO. }
    rewrite E1, E2, H. reflexivity.
Qed.

Lemma cats_of_token_brace inner c :
  forallb is_run inner = true -> ints_of inner = Ok c ->
  cats_of_token (123%N :: inner ++ [125%N]) = Ok [c].
Proof.
  intros R H. unfold cats_of_token. destruct inner as [|x inner'].
  - rewrite ints_of_nil in H. injection H as <-. reflexivity.
  - simpl in R. apply andb_true_iff in R as [Rx _].
    assert (E1 : teqb (123%N :: (x :: inner') ++ [125%N]) (lit "{}") = false).
    { simpl. now rewrite (run_not_close x Rx). }
    rewrite E1.
    assert (E2 : startswith (lit "{") (123%N :: (x :: inner') ++ [125%N]) = true) by reflexivity.
    rewrite E2. change (drop 1 (123%N :: (x :: inner') ++ [125%N])) with ((x :: inner') ++ [125%N]).
    rewrite removelast_last. now rewrite H.
Qed.

(* ================================================================================================ *)
(* A.3 the state machine on runs and brace groups                                                   *)
(* ================================================================================================ *)
Lemma tok_go_run st d : forall acc r, forallb is_run d = true ->
  tok_go st acc (d ++ r) = tok_go st (rev d ++ acc) r.
Proof.
  induction d as [|c d IH]; intros acc r H; [reflexivity|].
  simpl in H. apply andb_true_iff in H as [Hc Hd]. simpl. rewrite Hc. rewrite IH by exact Hd.
  now rewrite <- app_assoc.
Qed.

Lemma tok_go_open st acc r : tok_go st acc (123%N :: r) = flush acc ++ tok_go true [] r.
Proof. reflexivity. Qed.

Lemma tok_go_close acc r : tok_go true acc (125%N :: r) = (123%N :: rev (125%N :: acc)) :: tok_go false [] r.
Proof. reflexivity. Qed.

Lemma tok_go_brace st acc inner r : forallb is_run inner = true ->
  tok_go st acc (123%N :: inner ++ 125%N :: r) = flush acc ++ (123%N :: inner ++ [125%N]) :: tok_go false [] r.
Proof.
  intros H. rewrite tok_go_open. f_equal. rewrite tok_go_run by exact H. rewrite tok_go_close.
  f_equal. f_equal. simpl. rewrite app_nil_r. now rewrite rev_involutive.
Qed.

Lemma flush_rev acc : acc <> [] -> flush (rev acc) = [acc].
Proof.
  intros NE. destruct (rev acc) as [|x l] eqn:E.
  - exfalso. apply NE. rewrite <- (rev_involutive acc). now rewrite E.
  - unfold flush. rewrite <- E. now rewrite rev_involutive.
Qed.

(* ================================================================================================ *)
(* A.4 token list -> ballot                                                                         *)
(* ================================================================================================ *)
Definition parse_toks (toks : list text) : result ballot :=
  rmap (@List.concat (list N)) (rseq (map cats_of_token toks)).

Lemma parse_pref_toks s : parse_pref s = parse_toks (tokenize s).
Proof. reflexivity. Qed.

Lemma parse_toks_cons t T x X :
  cats_of_token t = Ok x -> parse_toks T = Ok X -> parse_toks (t :: T) = Ok (x ++ X).
Proof.
  unfold parse_toks. simpl. intros -> H. simpl.
  destruct (rseq (map cats_of_token T)) as [Y|e]; simpl in *; [|discriminate].
  injection H as <-. reflexivity.
Qed.

Lemma parse_toks_flush acc l T X :
  forallb is_run acc = true -> ints_of acc = Ok l -> parse_toks T = Ok X ->
  parse_toks (flush (rev acc) ++ T) = Ok (map single l ++ X).
Proof.
  intros R H HT. destruct acc as [|c a].
  - rewrite ints_of_nil in H. injection H as <-. exact HT.
  - rewrite flush_rev by discriminate. simpl app.
    apply parse_toks_cons; [now apply cats_of_token_bare|exact HT].
Qed.

(* ================================================================================================ *)
(* A.5 the printed ballot without spaces, and its tokenization                                      *)
(* ================================================================================================ *)
Definition cat_str_ns (c : list N) : text :=
  match c with
  | [] => [123; 125]%N
  | [a] => show_N a
  | _ => 123%N :: join [44%N] (map show_N c) ++ [125%N]
  end.
(* every category preceded by a comma *)
Definition items (b : ballot) : text := flat_map (fun c => 44%N :: cat_str_ns c) b.

(* [acc] can be continued: whatever follows is a new piece *)
Definition continuable (acc : text) (l : list N) : Prop :=
  forall d ld, ints_of d = Ok ld -> ints_of (acc ++ d) = Ok (l ++ ld).

Lemma continuable_nil : continuable [] [].
Proof. intros d ld H. exact H. Qed.

Lemma continuable_comma acc l : ints_of acc = Ok l -> continuable (acc ++ [44%N]) l.
Proof. intros H d ld Hd. rewrite <- app_assoc. simpl. now apply ints_of_app_comma. Qed.

Lemma continuable_self acc l : continuable acc l -> ints_of acc = Ok l.
Proof. intros H. specialize (H [] [] ints_of_nil). now rewrite !app_nil_r in H. Qed.

Definition tail_ok (R : text) (rest : ballot) : Prop :=
  forall acc l, forallb is_run acc = true -> ints_of acc = Ok l ->
                parse_toks (tok_go false (rev acc) R) = Ok (map single l ++ rest).

Lemma item_step c R acc l rest :
  forallb is_run acc = true -> continuable acc l -> tail_ok R rest ->
  parse_toks (tok_go false (rev acc) (cat_str_ns c ++ R)) = Ok (map single l ++ c :: rest).
Proof.
  intros RA CA HT. pose proof (continuable_self _ _ CA) as IA.
  destruct c as [|a [|a2 c']].
  - (* empty category *)
    change (cat_str_ns [] ++ R) with (123%N :: [] ++ 125%N :: R).
    rewrite tok_go_brace by reflexivity.
    apply parse_toks_flush; [exact RA|exact IA|].
    apply (parse_toks_cons _ _ [[]] rest).
    + apply (cats_of_token_brace [] []); reflexivity.
    + apply (HT [] []); reflexivity.
  - (* singleton *)
    simpl cat_str_ns. rewrite tok_go_run by apply show_N_runs. rewrite <- rev_app_distr.
    rewrite (HT (acc ++ show_N a) (l ++ [a])).
    + rewrite map_app. now rewrite <- app_assoc.
    + rewrite forallb_app, RA. apply show_N_runs.
    + apply CA. apply ints_of_show.
  - (* two or more alternatives *)
    set (c := a :: a2 :: c').
    change (cat_str_ns c) with (123%N :: join [44%N] (map show_N c) ++ [125%N]).
    replace ((123%N :: join [44%N] (map show_N c) ++ [125%N]) ++ R)
      with (123%N :: join [44%N] (map show_N c) ++ 125%N :: R)
      by (change ((123%N :: join [44%N] (map show_N c) ++ [125%N]) ++ R)
            with (123%N :: (join [44%N] (map show_N c) ++ [125%N]) ++ R);
          now rewrite <- app_assoc).
    rewrite tok_go_brace by apply runs_join.
    apply parse_toks_flush; [exact RA|exact IA|].
    apply (parse_toks_cons _ _ [c] rest).
    + apply cats_of_token_brace; [apply runs_join|apply ints_of_join].
    + apply (HT [] []); reflexivity.
Qed.

Lemma items_tail b : tail_ok (items b) b.
Proof.
  induction b as [|c b IH]; intros acc l RA IA.
  - simpl. rewrite app_nil_r. rewrite <- (app_nil_r (flush (rev acc))). rewrite <- (app_nil_r (map single l)).
    apply parse_toks_flush; [exact RA|exact IA|reflexivity].
  - change (items (c :: b)) with (44%N :: cat_str_ns c ++ items b).
    change (tok_go false (rev acc) (44%N :: cat_str_ns c ++ items b))
      with (tok_go false (44%N :: rev acc) (cat_str_ns c ++ items b)).
    change (44%N :: rev acc) with ([44%N] ++ rev acc).
    replace ([44%N] ++ rev acc) with (rev (acc ++ [44%N])) by (now rewrite rev_app_distr).
    apply item_step.
    + rewrite forallb_app, RA. reflexivity.
    + now apply continuable_comma.
    + exact IH.
Qed.

(* the tokenizer and the category construction invert the space-free ballot text *)
Lemma parse_pref_ns c b : parse_pref (cat_str_ns c ++ items b) = Ok (c :: b).
Proof.
  rewrite parse_pref_toks. unfold tokenize. change (@nil N) with (rev (@nil N)) at 1.
  apply (item_step c (items b) [] [] b); [reflexivity|apply continuable_nil|apply items_tail].
Qed.

(* ================================================================================================ *)
(* A.6 pref_str, strip(", ") and replace(" ", "")                                                   *)
(* ================================================================================================ *)
Lemma flat_map_shift {A} (g : A -> text) (s : text) b : forall c,
  flat_map (fun x => g x ++ s) (c :: b) = (g c ++ flat_map (fun x => s ++ g x) b) ++ s.
Proof.
  induction b as [|c2 b IH]; intros c.
  - simpl. now rewrite !app_nil_r.
  - change (flat_map (fun x => g x ++ s) (c :: c2 :: b))
      with ((g c ++ s) ++ flat_map (fun x => g x ++ s) (c2 :: b)).
    rewrite IH. simpl. now rewrite <- !app_assoc.
Qed.

(* the assembled text of a non-empty ballot before the trailing ", " *)
Definition body (c : list N) (b : ballot) : text :=
  cat_str c ++ flat_map (fun x => lit ", " ++ cat_str x) b.

Lemma pref_str_body c b : pref_str (c :: b) = body c b ++ lit ", ".
Proof. unfold pref_str, body. apply flat_map_shift. Qed.

Definition starts_good (t : text) : Prop :=
  exists z t1, t = z :: t1 /\ (is_digit z || (z =? 123)%N) = true.
Definition ends_good (t : text) : Prop :=
  exists t0 z, t = t0 ++ [z] /\ (is_digit z || (z =? 125)%N) = true.

Lemma ends_good_app x t : ends_good t -> ends_good (x ++ t).
Proof. intros [t0 [z [-> Hz]]]. exists (x ++ t0), z. now rewrite app_assoc. Qed.
Lemma starts_good_app t x : starts_good t -> starts_good (t ++ x).
Proof. intros [z [t1 [-> Hz]]]. now exists z, (t1 ++ x). Qed.

Lemma show_N_starts n : starts_good (show_N n).
Proof.
  pose proof (show_N_nonempty n) as NE. pose proof (show_N_digits n) as D.
  destruct (show_N n) as [|z t]; [now elim NE|]. simpl in D. apply andb_true_iff in D as [Dz _].
  exists z, t. now rewrite Dz.
Qed.
Lemma show_N_ends n : ends_good (show_N n).
Proof.
  pose proof (show_N_nonempty n) as NE. pose proof (show_N_digits n) as D.
  destruct (exists_last NE) as [t0 [z E]]. rewrite E in D. rewrite forallb_app in D.
  apply andb_true_iff in D as [_ Dz]. simpl in Dz. rewrite andb_true_r in Dz.
  exists t0, z. now rewrite Dz.
Qed.

Lemma cat_str_starts c : starts_good (cat_str c).
Proof.
  destruct c as [|a [|a2 c]].
  - now exists 123%N, [125%N].
  - apply show_N_starts.
  - eexists 123%N, _. split; [reflexivity|reflexivity].
Qed.
Lemma cat_str_ends c : ends_good (cat_str c).
Proof.
  destruct c as [|a [|a2 c]].
  - now exists [123%N], 125%N.
  - apply show_N_ends.
  - unfold cat_str. rewrite app_assoc. eexists _, 125%N. split; reflexivity.
Qed.

Lemma body_starts c b : starts_good (body c b).
Proof. apply starts_good_app, cat_str_starts. Qed.
Lemma body_cons c c2 b : body c (c2 :: b) = cat_str c ++ lit ", " ++ body c2 b.
Proof. unfold body. cbn [flat_map]. now rewrite <- app_assoc. Qed.
Lemma body_ends b : forall c, ends_good (body c b).
Proof.
  induction b as [|c2 b IH]; intros c.
  - unfold body. simpl. rewrite app_nil_r. apply cat_str_ends.
  - rewrite body_cons. apply ends_good_app, ends_good_app. apply (IH c2).
Qed.

Lemma strip_by_keep f t w :
  (exists z t1, t = z :: t1 /\ f z = false) -> (exists t0 z, t = t0 ++ [z] /\ f z = false) ->
  forallb f w = true -> strip_by f (t ++ w) = t.
Proof.
  intros [z [t1 [E1 Hz]]] [t0 [z' [E2 Hz']]] Hw. unfold strip_by.
  assert (L : lstrip_by f (t ++ w) = t ++ w) by (rewrite E1; simpl; now rewrite Hz).
  rewrite L. rewrite rstrip_by_all by exact Hw.
  rewrite E2. unfold rstrip_by. rewrite rev_app_distr. simpl. rewrite Hz'.
  simpl. now rewrite rev_involutive.
Qed.

Definition cs (c : N) : bool := existsb (N.eqb c) (lit ", ").

Lemma good_start_not_cs z : (is_digit z || (z =? 123)%N) = true -> cs z = false.
Proof.
  intros H. unfold cs. simpl. rewrite orb_false_r. apply orb_false_iff. split; apply N.eqb_neq; intros ->; discriminate.
Qed.
Lemma good_end_not_cs z : (is_digit z || (z =? 125)%N) = true -> cs z = false.
Proof.
  intros H. unfold cs. simpl. rewrite orb_false_r. apply orb_false_iff. split; apply N.eqb_neq; intros ->; discriminate.
Qed.
Lemma good_start_not_space z : (is_digit z || (z =? 123)%N) = true -> is_space z = false.
Proof.
  intros H. apply orb_true_iff in H as [H|H].
  - apply digit_not_space in H. exact H.
  - apply N.eqb_eq in H. now subst.
Qed.
Lemma good_end_not_space z : (is_digit z || (z =? 125)%N) = true -> is_space z = false.
Proof.
  intros H. apply orb_true_iff in H as [H|H].
  - apply digit_not_space in H. exact H.
  - apply N.eqb_eq in H. now subst.
Qed.

(* pref_str.strip(", ") removes exactly the trailing separator *)
Lemma strip_pref_str c b : strip_chars (lit ", ") (pref_str (c :: b)) = body c b.
Proof.
  rewrite pref_str_body. unfold strip_chars. apply (strip_by_keep cs).
  - destruct (body_starts c b) as [z [t1 [E H]]]. exists z, t1. split; [exact E|now apply good_start_not_cs].
  - destruct (body_ends b c) as [t0 [z [E H]]]. exists t0, z. split; [exact E|now apply good_end_not_cs].
  - reflexivity.
Qed.

Lemma remove_sp_app a b : remove_sp (a ++ b) = remove_sp a ++ remove_sp b.
Proof. apply filter_app. Qed.

Lemma remove_sp_id s : lacks 32 s = true -> remove_sp s = s.
Proof.
  unfold remove_sp, lacks. induction s as [|c r IH]; simpl; [reflexivity|]. intros H.
  apply andb_true_iff in H as [Hc Hr]. rewrite Hc. now rewrite IH.
Qed.

Lemma remove_sp_show n : remove_sp (show_N n) = show_N n.
Proof. apply remove_sp_id. now apply show_N_lacks. Qed.

Lemma remove_sp_join c : remove_sp (join (lit ", ") (map show_N c)) = join [44%N] (map show_N c).
Proof.
  induction c as [|a c IH]; [reflexivity|]. destruct c as [|b c]; [apply remove_sp_show|].
  simpl map in *. rewrite join_comma_cons.
  change (join (lit ", ") (show_N a :: show_N b :: map show_N c))
    with (show_N a ++ lit ", " ++ join (lit ", ") (show_N b :: map show_N c)).
  rewrite !remove_sp_app. rewrite remove_sp_show, IH. reflexivity.
Qed.

Lemma remove_sp_cat_str c : remove_sp (cat_str c) = cat_str_ns c.
Proof.
  destruct c as [|a [|a2 c]]; [reflexivity|apply remove_sp_show|].
  unfold cat_str, cat_str_ns. rewrite !remove_sp_app. rewrite remove_sp_join. reflexivity.
Qed.

Lemma remove_sp_body c b : remove_sp (body c b) = cat_str_ns c ++ items b.
Proof.
  unfold body. rewrite remove_sp_app, remove_sp_cat_str. f_equal.
  induction b as [|c2 b IH]; [reflexivity|]. cbn [flat_map]. rewrite !remove_sp_app.
  rewrite remove_sp_cat_str, IH. reflexivity.
Qed.

(* C08_ties: for every ballot — any number of categories, each empty, singleton or larger, in any
   position — tokenizer + category construction read back what the printer (with its strip(", ")) wrote *)
Theorem ties_inverse b : parse_pref (remove_sp (strip_chars (lit ", ") (pref_str b))) = Ok b.
Proof.
  destruct b as [|c b]; [reflexivity|].
  rewrite strip_pref_str, remove_sp_body. apply parse_pref_ns.
Qed.

(* the stripped text of a non-empty ballot starts with a digit or "{" and ends with a digit or "}":
   strip(", ") cannot eat into it *)
Theorem stripped_ends c b :
  starts_good (strip_chars (lit ", ") (pref_str (c :: b))) /\ ends_good (strip_chars (lit ", ") (pref_str (c :: b))).
Proof. rewrite strip_pref_str. split; [apply body_starts|apply body_ends]. Qed.

(* ================================================================================================ *)
(* B. one ballot line                                                                               *)
(* ================================================================================================ *)
Definition bchar (c : N) : bool := is_run c || (c =? 123)%N || (c =? 125)%N.

Lemma runs_bchars s : forallb is_run s = true -> forallb bchar s = true.
Proof. apply forallb_impl. intros c H. unfold bchar. now rewrite H. Qed.

Lemma cat_str_ns_bchars c : forallb bchar (cat_str_ns c) = true.
Proof.
  destruct c as [|a [|a2 c]]; [reflexivity|apply runs_bchars, show_N_runs|].
  set (c' := a :: a2 :: c).
  change (cat_str_ns c') with ([123%N] ++ join [44%N] (map show_N c') ++ [125%N]).
  rewrite !forallb_app. rewrite (runs_bchars _ (runs_join c')). reflexivity.
Qed.

Lemma items_bchars b : forallb bchar (items b) = true.
Proof.
  induction b as [|c b IH]; [reflexivity|].
  change (items (c :: b)) with ([44%N] ++ cat_str_ns c ++ items b).
  rewrite !forallb_app, cat_str_ns_bchars, IH. reflexivity.
Qed.

Lemma bchars_lack_colon s : forallb bchar s = true -> lacks 58 s = true.
Proof.
  apply forallb_impl. intros c H. apply negb_true_iff. apply N.eqb_neq. intros ->. discriminate.
Qed.

Lemma strip_fix_good t : starts_good t -> ends_good t -> strip t = t.
Proof.
  intros [z [t1 [E1 H1]]] [t0 [z' [E2 H2]]]. unfold strip.
  rewrite <- (app_nil_r t) at 1. apply strip_by_keep.
  - exists z, t1. split; [exact E1|now apply good_start_not_space].
  - exists t0, z'. split; [exact E2|now apply good_end_not_space].
  - reflexivity.
Qed.

Lemma ballot_line_read mu c b :
  ballot_of_line (ballot_line mu (c :: b)) = Ok (mult_of mu (c :: b), c :: b).
Proof.
  unfold ballot_of_line, ballot_line. rewrite strip_pref_str.
  set (m := mult_of mu (c :: b)).
  replace (show_N m ++ lit ": " ++ body c b ++ nl) with ((show_N m ++ lit ": " ++ body c b) ++ nl)
    by (now rewrite <- !app_assoc).
  rewrite strip_nl_r by reflexivity.
  rewrite strip_fix_good.
  2:{ apply starts_good_app. destruct (show_N_starts m) as [z [t1 [E H]]]. exists z, t1. split; [exact E|].
      apply orb_true_iff in H as [H|H]; [now rewrite H|].
      exfalso. apply N.eqb_eq in H. subst z. pose proof (show_N_digits m) as D. rewrite E in D. discriminate. }
  2:{ apply ends_good_app, ends_good_app, body_ends. }
  rewrite !remove_sp_app, remove_sp_show, remove_sp_body.
  change (remove_sp (lit ": ")) with [58%N]. simpl app at 2.
  rewrite split_on_app.
  rewrite (split_on_none 58 (show_N m)) by (now apply show_N_lacks).
  rewrite (split_on_none 58 (cat_str_ns c ++ items b)).
  2:{ apply bchars_lack_colon. rewrite forallb_app, cat_str_ns_bchars. apply items_bchars. }
  simpl app. cbv iota beta. rewrite py_int_show_N. simpl rbind. now rewrite parse_pref_ns.
Qed.

(* ================================================================================================ *)
(* C. the stable sort                                                                               *)
(* ================================================================================================ *)
Section Sort.
Context {A : Type} (lt : A -> A -> bool).
(* x may stand before y *)
Definition le_of (x y : A) : Prop := lt y x = false.
Hypothesis asym : forall x y, lt y x = true -> lt x y = false.
Hypothesis trans : forall x y z, le_of x y -> le_of y z -> le_of x z.

Lemma insert_by_perm x l : Permutation (x :: l) (insert_by lt x l).
Proof.
  induction l as [|y r IH]; simpl; [apply Permutation_refl|].
  destruct (lt y x); [|apply Permutation_refl].
  eapply Permutation_trans; [apply perm_swap|]. now apply perm_skip.
Qed.

Lemma stable_sort_perm l : Permutation l (stable_sort lt l).
Proof.
  induction l as [|x r IH]; simpl; [constructor|].
  eapply Permutation_trans; [apply perm_skip, IH|]. apply insert_by_perm.
Qed.

Lemma insert_by_sorted x l : StronglySorted le_of l -> StronglySorted le_of (insert_by lt x l).
Proof.
  induction l as [|y r IH]; intros S; simpl.
  - constructor; constructor.
  - inversion S as [|? ? Sr Fy]; subst. destruct (lt y x) eqn:E.
    + constructor; [now apply IH|].
      apply (Permutation_Forall (insert_by_perm x r)). constructor; [|exact Fy].
      unfold le_of. now apply asym.
    + constructor; [exact S|]. constructor; [exact E|].
      eapply Forall_impl; [|exact Fy]. intros z Hz. now apply (trans x y z).
Qed.

Lemma stable_sort_sorted l : StronglySorted le_of (stable_sort lt l).
Proof. induction l as [|x r IH]; simpl; [constructor|now apply insert_by_sorted]. Qed.
End Sort.

(* sorting a sorted list changes nothing (no hypothesis on the comparison needed) *)
Lemma stable_sort_id {A} (lt : A -> A -> bool) l : StronglySorted (le_of lt) l -> stable_sort lt l = l.
Proof.
  induction l as [|x r IH]; intros S; [reflexivity|]. inversion S as [|? ? Sr Fx]; subst.
  simpl. rewrite (IH Sr). destruct r as [|y r']; [reflexivity|]. simpl.
  inversion Fx as [|? ? Hy _]; subst. unfold le_of in Hy. now rewrite Hy.
Qed.

Lemma StronglySorted_ext_in {A} (R R' : A -> A -> Prop) l :
  (forall x y, In x l -> In y l -> R x y -> R' x y) -> StronglySorted R l -> StronglySorted R' l.
Proof.
  induction l as [|x r IH]; intros H S; [constructor|]. inversion S as [|? ? Sr Fx]; subst.
  constructor.
  - apply IH; [|exact Sr]. intros a b Ha Hb. apply H; now right.
  - rewrite Forall_forall in *. intros y Hy. apply H; [now left|now right|now apply Fx].
Qed.

(* ---- the key of write's sort ---- *)
Lemma key_lt_spec mu y x :
  key_lt mu y x = true <->
  (mult_of mu x < mult_of mu y)%N \/ (mult_of mu y = mult_of mu x /\ List.length x < List.length y).
Proof.
  unfold key_lt. rewrite orb_true_iff, andb_true_iff, N.ltb_lt, N.eqb_eq, Nat.ltb_lt. reflexivity.
Qed.

Lemma key_lt_false mu y x :
  key_lt mu y x = false <->
  (mult_of mu y < mult_of mu x)%N \/ (mult_of mu y = mult_of mu x /\ List.length y <= List.length x).
Proof.
  rewrite <- not_true_iff_false, key_lt_spec. lia.
Qed.

Lemma key_lt_asym mu x y : key_lt mu y x = true -> key_lt mu x y = false.
Proof. rewrite key_lt_spec, key_lt_false. lia. Qed.

Lemma key_le_trans mu x y z : le_of (key_lt mu) x y -> le_of (key_lt mu) y z -> le_of (key_lt mu) x z.
Proof. unfold le_of. rewrite !key_lt_false. lia. Qed.

Lemma sorted_prefs_sorted i : StronglySorted (le_of (key_lt (c_mult i))) (sorted_prefs i).
Proof. apply stable_sort_sorted; [apply key_lt_asym|apply key_le_trans]. Qed.

Lemma sorted_prefs_perm i : Permutation (c_prefs i) (sorted_prefs i).
Proof. apply stable_sort_perm. Qed.

(* multiplicities are non-increasing along the written ballot list *)
Definition mult_non_increasing (mu : list (ballot * N)) (l : list ballot) : Prop :=
  StronglySorted (fun x y => (mult_of mu y <= mult_of mu x)%N) l.

Lemma sorted_prefs_non_increasing i : mult_non_increasing (c_mult i) (sorted_prefs i).
Proof.
  eapply StronglySorted_ext_in; [|apply sorted_prefs_sorted].
  intros x y _ _. unfold le_of. rewrite key_lt_false. lia.
Qed.

(* ---- equality tests ---- *)
Lemma list_eqb_eq {A} (eqb : A -> A -> bool) :
  (forall x y, eqb x y = true <-> x = y) -> forall a b, list_eqb eqb a b = true <-> a = b.
Proof.
  intros H. induction a as [|x a IH]; intros [|y b]; simpl; split; intros E; try easy.
  - apply andb_true_iff in E as [E1 E2]. apply H in E1. apply IH in E2. now subst.
  - injection E as -> ->. apply andb_true_iff. split; [now apply H|now apply IH].
Qed.
Lemma cat_eqb_eq a b : cat_eqb a b = true <-> a = b.
Proof. apply list_eqb_eq. intros x y. apply N.eqb_eq. Qed.
Lemma ballot_eqb_eq a b : ballot_eqb a b = true <-> a = b.
Proof. apply list_eqb_eq. apply cat_eqb_eq. Qed.
Lemma ballot_eqb_refl a : ballot_eqb a a = true.
Proof. now apply ballot_eqb_eq. Qed.
Lemma ballot_eqb_neq a b : a <> b -> ballot_eqb a b = false.
Proof. intros H. destruct (ballot_eqb a b) eqn:E; [|reflexivity]. apply ballot_eqb_eq in E. contradiction. Qed.

(* ---- the table of sorted_view ---- *)
Definition retable (mu : list (ballot * N)) (l : list ballot) : list (ballot * N) :=
  map (fun b => (b, mult_of mu b)) l.

Lemma mult_of_retable mu l b : In b l -> mult_of (retable mu l) b = mult_of mu b.
Proof.
  unfold mult_of at 1. induction l as [|s l IH]; intros H; [easy|]. simpl.
  destruct (ballot_eqb b s) eqn:E.
  - apply ballot_eqb_eq in E. now subst.
  - destruct H as [->|H]; [now rewrite ballot_eqb_refl in E|now apply IH].
Qed.

Lemma key_lt_retable mu l x y : In x l -> In y l -> key_lt (retable mu l) y x = key_lt mu y x.
Proof. intros Hx Hy. unfold key_lt. now rewrite !mult_of_retable. Qed.

Lemma flat_map_ext_in {A B} (f g : A -> list B) l :
  (forall x, In x l -> f x = g x) -> flat_map f l = flat_map g l.
Proof.
  induction l as [|x r IH]; intros H; [reflexivity|]. simpl. rewrite (H x) by now left.
  rewrite IH; [reflexivity|]. intros y Hy. apply H. now right.
Qed.

Lemma sorted_view_sorted_prefs i : sorted_prefs (sorted_view i) = sorted_prefs i.
Proof.
  unfold sorted_prefs at 1.
  change (c_prefs (sorted_view i)) with (sorted_prefs i).
  change (c_mult (sorted_view i)) with (retable (c_mult i) (sorted_prefs i)).
  apply stable_sort_id.
  eapply StronglySorted_ext_in; [|apply sorted_prefs_sorted].
  intros x y Hx Hy. unfold le_of. now rewrite key_lt_retable.
Qed.

(* writing the sorted view reproduces the file *)
Lemma sorted_view_meta i : c_meta (sorted_view i) = c_meta i.  Proof. reflexivity. Qed.
Lemma sorted_view_counts i : write_counts (sorted_view i) = write_counts i.  Proof. reflexivity. Qed.
Lemma sorted_view_cat_names i : c_cat_names (sorted_view i) = c_cat_names i.  Proof. reflexivity. Qed.
Lemma sorted_view_mult i : c_mult (sorted_view i) = retable (c_mult i) (sorted_prefs i).  Proof. reflexivity. Qed.
Lemma sorted_view_prefs i : c_prefs (sorted_view i) = sorted_prefs i.  Proof. reflexivity. Qed.

Theorem write_sorted_view i : cat_write (sorted_view i) = cat_write i.
Proof.
  unfold cat_write. rewrite sorted_view_sorted_prefs, sorted_view_meta, sorted_view_counts,
    sorted_view_cat_names, sorted_view_mult.
  do 4 f_equal.
  apply flat_map_ext_in. intros b Hb. unfold ballot_line. now rewrite mult_of_retable.
Qed.
