(* Model/Deletion.v — nearly-single-peaked optimisers (C12). Executable definitions only.

   Anchors in /repo:
     preflibtools/properties/subdomains/ordinal/singlepeaked/singlepeakedness.py
        approx_SP_voter_deletion_ILP  + sp_ILP_cons_ones_vot_del_cstr        REFERENCE (min_vot_del) + CHECKER (cert_vot)
        approx_SP_alternative_deletion_ILP + sp_ILP_cons_ones_alt_del_cstr   REFERENCE (min_alt_del) + CHECKER (cert_alt)
     preflibtools/properties/subdomains/ordinal/singlepeaked/k_alternative_deletion.py
        k_alternative_deletion / longest_single_peaked_axis (dynamic programme)   REFERENCE (min_alt_del) + CHECKER (cert_alt)
   None of the three implementations is mirrored (ILP builders + CBC, the Erdelyi-Lackner-Pfandler DP): shape (R).

   The profile is the list instance.orders (distinct orders; the objective is unweighted: one unit per
   distinct order / per alternative).  An order is the list of its indifference classes (SP.order).
   A set of deleted alternatives is a list of N, a set of deleted voters a list of indices (nat) into the profile. *)
From Coq Require Import List Arith NArith Bool.
From PrefVerif Require Import Lib.Val Lib.Perms Lib.Contig Lib.Subsets Model.SP.
Import ListNotations.

(* ---------------------------------------------------------------------------------------------- *)
(* deleting alternatives                                                                           *)

(* the alternatives of l that are not deleted *)
Definition keepN (D : list N) (l : list N) : list N := filter (fun a => negb (memN a D)) l.

(* an order without the alternatives of D; emptied classes disappear *)
Definition delete_order (D : list N) (o : order) : order :=
  filter (fun c => negb (is_nil c)) (map (keepN D) o).
Definition delete_alts (D : list N) (p : list order) : list order := map (delete_order D) p.

(* the profile without D is weakly single-peaked (reference decider of C11 on the remaining alternatives) *)
Definition alt_del_ok (alts : list N) (p : list order) (D : list N) : bool :=
  spw_decide (keepN D alts) (delete_alts D p).

(* some k-element subset of alts works *)
Definition alt_del_k (alts : list N) (p : list order) (k : nat) : bool :=
  existsb (alt_del_ok alts p) (subsets_k k alts).

(* least k = 0, 1, .., |alts| such that some k-subset works (k = |alts| always works: nothing is left) *)
Definition min_alt_del (alts : list N) (p : list order) : nat :=
  least (alt_del_k alts p) (length alts).

(* ---------------------------------------------------------------------------------------------- *)
(* deleting voters (= distinct orders, by index in the profile)                                    *)

Definition mem_nat (i : nat) (l : list nat) : bool := existsb (Nat.eqb i) l.

Fixpoint remove_idx_from (V : list nat) (i : nat) (p : list order) : list order :=
  match p with
  | [] => []
  | o :: r => if mem_nat i V then remove_idx_from V (S i) r else o :: remove_idx_from V (S i) r
  end.
Definition remove_idx (V : list nat) (p : list order) : list order := remove_idx_from V 0 p.

Definition vot_del_ok (alts : list N) (p : list order) (V : list nat) : bool :=
  spw_decide alts (remove_idx V p).

Definition vot_del_k (alts : list N) (p : list order) (k : nat) : bool :=
  existsb (vot_del_ok alts p) (subsets_k k (seq 0 (length p))).

(* least k = 0, 1, .., |p| such that removing some k orders works (k = |p| always works: no order is left) *)
Definition min_vot_del (alts : list N) (p : list order) : nat :=
  least (vot_del_k alts p) (length p).

(* ---------------------------------------------------------------------------------------------- *)
(* certificate checkers                                                                            *)

Fixpoint nodup_nat (l : list nat) : bool :=
  match l with [] => true | a :: r => negb (mem_nat a r) && nodup_nat r end.

(* (axis, D) certifies "k alternatives suffice": D is a duplicate-free set of k alternatives, the axis with
   the deleted alternatives filtered out lists every remaining alternative exactly once, and every order of
   the remaining profile (restricted to the remaining alternatives) passes the axis test on it.
   The ILP returns an axis over all alternatives, the dynamic programme one over the remaining ones only:
   both are handled by the filter. *)
Definition cert_alt (alts : list N) (p : list order) (k : nat) (axis : list N) (D : list N) : bool :=
  nodupN D && forallb (fun a => memN a alts) D && (length D =? k)
  && spw_check_axis (keepN D alts) (delete_alts D p) (keepN D axis).

(* (axis, V) certifies "k voters suffice": V is a duplicate-free set of k indices of orders, the axis is a
   permutation of the alternatives, every remaining order passes the axis test. *)
Definition cert_vot (alts : list N) (p : list order) (k : nat) (axis : list N) (V : list nat) : bool :=
  nodup_nat V && forallb (fun i => i <? length p) V && (length V =? k)
  && spw_check_axis alts (remove_idx V p) axis.
