(* Proofs/ScoringCopeland.v — Copeland: the nested margin table of copeland_scores and the number of pairwise
   contests WON (margin > 0), against the textbook definition on the expanded profile. *)
From Coq Require Import List Arith NArith ZArith Bool Lia Permutation.
From PrefVerif Require Import Lib.Val Model.Scoring Proofs.ScoreTable Proofs.Scoring.
Import ListNotations.

(* textbook: number of voters ranking x strictly above y; a wins the contest against b when more voters rank
   a above b than b above a; Copeland score = number of contests won *)
Definition nprefer (P : list order) (x y : N) : N := voters (fun o => prefers o x y) P.
Definition beats (P : list order) (a b : N) : bool := N.ltb (nprefer P b a) (nprefer P a b).
Definition copeland_wins (al : list N) (P : list order) (a : N) : N :=
  N.of_nat (length (filter (fun b => negb (N.eqb b a) && beats P a b) al)).

(* ---- the table as a function ---- *)
Definition mk_tbl (al : list N) (f : N -> N -> Z) : ctable :=
  map (fun a => (a, map (fun b => (b, f a b)) (filter (fun b => negb (N.eqb b a)) al))) al.

Lemma mk_tbl_ext : forall al f g, (forall x y, f x y = g x y) -> mk_tbl al f = mk_tbl al g.
Proof.
  intros al f g H. unfold mk_tbl. apply map_ext. intros a. f_equal. apply map_ext. intros b. rewrite H. reflexivity.
Qed.

Lemma cop_init_mk : forall al, cop_init al = mk_tbl al (fun _ _ => 0%Z).
Proof. reflexivity. Qed.

Lemma cop_add_mk : forall al f w b d,
  cop_add (mk_tbl al f) w b d = mk_tbl al (fun x y => if N.eqb x w && N.eqb y b then (f x y + d)%Z else f x y).
Proof.
  intros al f w b d. unfold cop_add, mk_tbl. rewrite map_map. apply map_ext. intros x. simpl.
  destruct (N.eqb x w); simpl; [|reflexivity]. f_equal. rewrite map_map. apply map_ext. intros y. simpl.
  destruct (N.eqb y b); reflexivity.
Qed.

Definition b2z (b : bool) : Z := if b then 1%Z else 0%Z.

Fixpoint pair_cnt (x y : N) (l : list (N * N)) : Z :=
  match l with
  | [] => 0%Z
  | wb :: r => (b2z (N.eqb (fst wb) x && N.eqb (snd wb) y) + pair_cnt x y r)%Z
  end.

Lemma pair_cnt_app : forall x y l1 l2, pair_cnt x y (l1 ++ l2) = (pair_cnt x y l1 + pair_cnt x y l2)%Z.
Proof. intros x y l1 l2. induction l1 as [|e r IH]; simpl; [reflexivity|rewrite IH; lia]. Qed.

Definition pair_step (k : Z) (t : ctable) (wb : N * N) : ctable :=
  cop_add (cop_add t (fst wb) (snd wb) k) (snd wb) (fst wb) (- k)%Z.

Lemma fold_pairs : forall al k l f,
  fold_left (pair_step k) l (mk_tbl al f) =
  mk_tbl al (fun x y => (f x y + k * pair_cnt x y l - k * pair_cnt y x l)%Z).
Proof.
  intros al k l. induction l as [|[w b] l IH]; intros f.
  - simpl. apply mk_tbl_ext. intros; lia.
  - simpl fold_left. unfold pair_step at 2. simpl fst. simpl snd. rewrite !cop_add_mk, IH.
    apply mk_tbl_ext. intros x y. simpl pair_cnt.
    rewrite (N.eqb_sym w x), (N.eqb_sym b y), (N.eqb_sym w y), (N.eqb_sym b x).
    destruct (N.eqb x w), (N.eqb y b), (N.eqb x b), (N.eqb y w); cbn [andb b2z]; lia.
Qed.

(* the (winner, beaten) pairs in the order the loops of copeland_scores visit them *)
Fixpoint cop_pairs (before : list N) (o : order) : list (N * N) :=
  match o with
  | [] => []
  | c :: r => flat_map (fun b => map (fun w => (w, b)) before) c ++ cop_pairs (before ++ c) r
  end.

Lemma fold_left_map' : forall {A B C} (g : A -> C -> A) (m : B -> C) l t,
  fold_left g (map m l) t = fold_left (fun t x => g t (m x)) l t.
Proof. intros A B C g m l. induction l as [|x r IH]; intro t; simpl; [reflexivity|apply IH]. Qed.

Lemma fold_left_flat_map' : forall {A B C} (g : A -> C -> A) (h : B -> list C) l t,
  fold_left g (flat_map h l) t = fold_left (fun t x => fold_left g (h x) t) l t.
Proof.
  intros A B C g h l. induction l as [|x r IH]; intro t; simpl; [reflexivity|].
  rewrite fold_left_app. apply IH.
Qed.

Lemma cop_order_pairs : forall k o before t,
  cop_order k before o t = fold_left (pair_step k) (cop_pairs before o) t.
Proof.
  intros k o. induction o as [|c r IH]; intros before t; [reflexivity|].
  simpl. rewrite fold_left_app, IH. f_equal.
  rewrite fold_left_flat_map'. apply fold_left_ext || idtac.
  revert t. induction c as [|b c' IHc]; intro t; simpl; [reflexivity|].
  rewrite IHc. f_equal. rewrite fold_left_map'. reflexivity.
Qed.

Lemma memN_cons_c : forall a x l, memN a (x :: l) = N.eqb a x || memN a l.
Proof. reflexivity. Qed.

Lemma pc_map : forall x y b before, NoDup before ->
  pair_cnt x y (map (fun w => (w, b)) before) = b2z (memN x before && N.eqb b y).
Proof.
  intros x y b before. induction before as [|w r IH]; intro H; [reflexivity|].
  inversion H as [|? ? Hw Hr]; subst. simpl map. simpl pair_cnt. rewrite (IH Hr). rewrite memN_cons_c.
  rewrite (N.eqb_sym x w). destruct (N.eqb_spec w x) as [E|E]; simpl; [|reflexivity].
  subst w. assert (M : memN x r = false) by (apply memN_false; exact Hw). rewrite M. simpl.
  destruct (N.eqb b y); reflexivity.
Qed.

Lemma pc_flat : forall x y before c, NoDup before -> NoDup c ->
  pair_cnt x y (flat_map (fun b => map (fun w => (w, b)) before) c) = b2z (memN x before && memN y c).
Proof.
  intros x y before c Hb. induction c as [|b r IH]; intro Hc.
  - simpl. rewrite andb_false_r. reflexivity.
  - inversion Hc as [|? ? Hn Hr]; subst. simpl flat_map. rewrite pair_cnt_app, pc_map, (IH Hr) by exact Hb.
    rewrite memN_cons_c. rewrite (N.eqb_sym y b). destruct (N.eqb_spec b y) as [E|E]; simpl.
    + subst b. assert (M : memN y r = false) by (apply memN_false; exact Hn). rewrite M, !andb_false_r, !andb_true_r.
      destruct (memN x before); reflexivity.
    + rewrite !andb_false_r. reflexivity.
Qed.

Lemma prefers_in_l : forall o a b, prefers o a b = true -> In a (concat o).
Proof.
  induction o as [|c r IH]; intros a b H; simpl in *; [discriminate|].
  apply in_or_app. destruct (memN a c) eqn:E; [left; apply memN_In; exact E|right; eapply IH; exact H].
Qed.

Lemma memN_app : forall a l1 l2, memN a (l1 ++ l2) = memN a l1 || memN a l2.
Proof. intros. unfold memN. apply existsb_app. Qed.

Lemma pc_order : forall x y o before, NoDup (before ++ concat o) ->
  pair_cnt x y (cop_pairs before o) = (b2z (memN x before && memN y (concat o)) + b2z (prefers o x y))%Z.
Proof.
  intros x y o. induction o as [|c r IH]; intros before Hn.
  - simpl. rewrite andb_false_r. reflexivity.
  - simpl concat in *. simpl cop_pairs. simpl prefers.
    assert (Hb : NoDup before) by (eapply NoDup_app_l; exact Hn).
    assert (Hcr : NoDup (c ++ concat r)) by (eapply NoDup_app_r; exact Hn).
    assert (Hc : NoDup c) by (eapply NoDup_app_l; exact Hcr).
    rewrite pair_cnt_app, (pc_flat x y before c Hb Hc), (IH (before ++ c)) by (rewrite <- app_assoc; exact Hn).
    rewrite !memN_app.
    assert (H1 : memN x before && memN x c = false).
    { destruct (memN x before) eqn:A, (memN x c) eqn:B; try reflexivity. exfalso.
      apply memN_In in A. apply memN_In in B. eapply (NoDup_app_disj before (c ++ concat r) x Hn A). apply in_or_app. left. exact B. }
    assert (H2 : memN y c && memN y (concat r) = false).
    { destruct (memN y c) eqn:A, (memN y (concat r)) eqn:B; try reflexivity. exfalso.
      apply memN_In in A. apply memN_In in B. eapply (NoDup_app_disj c (concat r) y Hcr A B). }
    assert (H3 : memN x c = true -> prefers r x y = false).
    { intro A. destruct (prefers r x y) eqn:B; [|reflexivity]. exfalso. apply memN_In in A. apply prefers_in_l in B.
      eapply (NoDup_app_disj c (concat r) x Hcr A B). }
    destruct (memN x before), (memN x c), (memN y c), (memN y (concat r)), (prefers r x y);
      simpl in *; try discriminate; try reflexivity; try (specialize (H3 eq_refl); discriminate).
Qed.

(* margins accumulated over multiplicity.items() *)
Fixpoint margin_p (p : profile) (x y : N) : Z :=
  match p with
  | [] => 0%Z
  | om :: r => (Z.of_N (snd om) * (b2z (prefers (fst om) x y) - b2z (prefers (fst om) y x)) + margin_p r x y)%Z
  end.

Lemma copeland_table_mk : forall al p f,
  (forall om, In om p -> NoDup (concat (fst om))) ->
  fold_left (fun t om => cop_order (Z.of_N (snd om)) [] (fst om) t) p (mk_tbl al f) =
  mk_tbl al (fun x y => (f x y + margin_p p x y)%Z).
Proof.
  intros al p. induction p as [|om p IH]; intros f H.
  - simpl. apply mk_tbl_ext. intros; lia.
  - simpl fold_left. rewrite cop_order_pairs, fold_pairs, IH by (intros; apply H; right; assumption).
    apply mk_tbl_ext. intros x y. simpl margin_p.
    assert (Hn : NoDup ([] ++ concat (fst om))) by (apply H; left; reflexivity).
    rewrite !(pc_order _ _ _ [] Hn). cbn [memN existsb andb b2z].
    unfold order, profile in *. ring.
Qed.

Lemma margin_expand : forall p x y,
  margin_p p x y = (Z.of_N (nprefer (expand p) x y) - Z.of_N (nprefer (expand p) y x))%Z.
Proof.
  intros p x y. induction p as [|om p IH]; [reflexivity|].
  simpl margin_p. unfold nprefer in *. rewrite expand_cons, !voters_app, !voters_repeat, IH.
  destruct (prefers (fst om) x y), (prefers (fst om) y x); simpl b2z; lia.
Qed.

(* ---- the score table of copeland_winner ---- *)
Lemma filter_map_length : forall {A B} (f : B -> bool) (g : A -> B) l,
  length (filter f (map g l)) = length (filter (fun x => f (g x)) l).
Proof.
  intros A B f g l. induction l as [|x r IH]; simpl; [reflexivity|]. destruct (f (g x)); simpl; rewrite IH; reflexivity.
Qed.

Lemma filter_filter_length : forall {A} (f g : A -> bool) l,
  length (filter f (filter g l)) = length (filter (fun x => g x && f x) l).
Proof.
  intros A f g l. induction l as [|x r IH]; simpl; [reflexivity|]. destruct (g x); simpl; [destruct (f x); simpl|]; rewrite IH; reflexivity.
Qed.

Lemma lookup_map_fun : forall (W : N -> N) al a, In a al -> lookup 0%N (map (fun x => (x, W x)) al) a = W a.
Proof.
  intros W al a. induction al as [|x r IH]; intro H; [destruct H|]. simpl map. rewrite lookup_cons.
  destruct (N.eqb_spec x a) as [E|E]; [subst; reflexivity|]. destruct H as [H|H]; [congruence|apply IH; exact H].
Qed.

Theorem copeland_spec : forall i, wf_inst i -> dt_in (dt i) [Soc] = true ->
  exists w, copeland_winner i = Ok w /\
            forall a, In a w <-> is_max (copeland_wins (alts i) (expand (prof i))) (alts i) a.
Proof.
  intros i W D. unfold copeland_winner, copeland_scores. rewrite D.
  assert (D' : dt_in (dt i) [Soc; Toc; Soi; Toi] = true) by (destruct (dt i); simpl in *; congruence).
  rewrite D'. simpl rbind. unfold copeland_table. rewrite cop_init_mk, copeland_table_mk.
  2:{ intros om Hom. destruct (wi_ord i W om Hom) as [Wo _]. apply (wo_nodup _ _ Wo). }
  set (P := expand (prof i)). set (al := alts i).
  assert (Ht : map (fun xr : N * list (N * Z) => (fst xr, cop_wins (snd xr)))
                   (mk_tbl al (fun x y => (0 + margin_p (prof i) x y)%Z)) =
               map (fun a => (a, copeland_wins al P a)) al).
  { unfold mk_tbl. rewrite map_map. apply map_ext. intros a. simpl. f_equal.
    unfold cop_wins, copeland_wins. f_equal. rewrite filter_map_length, filter_filter_length.
    f_equal. apply filter_ext_in'. intros b _. simpl. f_equal. unfold beats. rewrite margin_expand. fold P.
    destruct (N.ltb_spec (nprefer P b a) (nprefer P a b)); [apply Z.ltb_lt|apply Z.ltb_ge]; lia. }
  rewrite Ht.
  assert (Hk : map fst (map (fun a => (a, copeland_wins al P a)) al) = al).
  { rewrite map_map. simpl. apply map_id. }
  destruct (tbl_winners_spec 0%N N.leb Nleb_refl Nleb_trans Nleb_total (map (fun a => (a, copeland_wins al P a)) al)) as [w [Hw Hs]].
  - rewrite Hk. apply (wi_alts i W).
  - assert (A := wf_alts_ne i W). fold al in A. destruct al; [congruence|discriminate].
  - exists w. split; [exact Hw|]. intros a. rewrite Hs. rewrite Hk. rewrite <- maximal_is_max.
    unfold maximal. split; intros [H1 H2]; split; try exact H1; intros b Hb.
    + rewrite <- !(lookup_map_fun (copeland_wins al P) al) by assumption. apply H2. exact Hb.
    + rewrite !(lookup_map_fun (copeland_wins al P) al) by assumption. apply H2. exact Hb.
Qed.

Theorem copeland_guard : forall i, dt_in (dt i) [Soc] = false -> copeland_winner i = Err Incompatible.
Proof. intros i H. unfold copeland_winner. rewrite H. reflexivity. Qed.

Lemma copeland_wins_perm : forall al P Q a, Permutation P Q -> copeland_wins al P a = copeland_wins al Q a.
Proof.
  intros al P Q a H. unfold copeland_wins. f_equal. f_equal. apply filter_ext_in'. intros b _. f_equal.
  unfold beats, nprefer. rewrite !(voters_perm _ P Q H). reflexivity.
Qed.

Theorem copeland_regroup : forall i i',
  wf_inst i -> wf_inst i' -> dt_in (dt i) [Soc] = true -> dt_in (dt i') [Soc] = true ->
  alts i = alts i' -> Permutation (expand (prof i)) (expand (prof i')) ->
  exists w w', copeland_winner i = Ok w /\ copeland_winner i' = Ok w' /\ forall a, In a w <-> In a w'.
Proof.
  intros i i' W W' D D' HA HP.
  destruct (copeland_spec i W D) as [w [E S]]. destruct (copeland_spec i' W' D') as [w' [E' S']].
  exists w, w'. split; [exact E|split; [exact E'|]]. intros a. rewrite S, S', <- HA.
  apply is_max_ext; [|intros; reflexivity]. intros b. apply copeland_wins_perm. exact HP.
Qed.
