(* Proofs/EntryFiles.v — C10_entrypoints for the files the three writers produce: the general restyling theorem
   of Proofs/Entry.v (entrypoints_text_proof) applied to ord_write / cat_write / wmd_write_tok, using the
   "written file as a list of lines" lemmas and the round-trip theorems of the C01 / C08 / C09 packages. *)
From Coq Require Import List Arith NArith Bool String Lia.
From PrefVerif Require Import Lib.Val Lib.Dec Lib.PyStr Model.Meta Model.OrdIO Model.CatIO Model.WmdIO Model.Entry.
From PrefVerif Require Import Proofs.Meta Proofs.Entry.
From PrefVerif Require Proofs.OrdIO Proofs.CatIO Proofs.WmdIO.
Import ListNotations.

Module PO := PrefVerif.Proofs.OrdIO.
Module PC := PrefVerif.Proofs.CatIO.
Module PW := PrefVerif.Proofs.WmdIO.

(* ---- non-empty lines ---- *)
Definition ne (l : text) : Prop := l <> [].

Lemma ne_app_r a b : ne b -> ne (a ++ b).
Proof. unfold ne. intros H E. apply app_eq_nil in E as [_ E]. now apply H. Qed.
Lemma ne_app_l a b : ne a -> ne (a ++ b).
Proof. unfold ne. intros H E. apply app_eq_nil in E as [E _]. now apply H. Qed.
Lemma ne_cons c r : ne (c :: r).
Proof. discriminate. Qed.

Lemma meta_lines_ne m : Forall ne (meta_lines m).
Proof. unfold meta_lines. repeat constructor; apply ne_app_r, ne_cons. Qed.

Lemma name_lines_ne prefix d : Forall ne (map (fun p => name_line prefix (fst p) (snd p)) d).
Proof. apply Forall_forall. intros l Hl. apply in_map_iff in Hl as [p [<- _]]. unfold name_line. apply ne_app_r, ne_cons. Qed.

Lemma Forall_app_intro {T} (P : T -> Prop) a b : Forall P a -> Forall P b -> Forall P (a ++ b).
Proof. intros. apply Forall_app. now split. Qed.

Lemma lines_ok_intro ls : forallb no_break ls = true -> Forall ne ls -> Forall line_ok ls.
Proof.
  intros H N. apply Forall_forall. intros l Hl. split.
  - rewrite forallb_forall in H. now apply H.
  - rewrite Forall_forall in N. now apply N.
Qed.

(* ================================================================================================ *)
(* ordinal                                                                                          *)
(* ================================================================================================ *)
Lemma ord_file_lines_ne i : Forall ne (PO.file_lines i).
Proof.
  unfold PO.file_lines, PO.header_texts. repeat apply Forall_app_intro.
  - apply meta_lines_ne.
  - unfold PO.count_texts. repeat constructor; apply ne_app_r, ne_cons.
  - apply name_lines_ne.
  - apply Forall_forall. intros l Hl. apply in_map_iff in Hl as [b [<- _]]. unfold PO.ballot_text.
    apply ne_app_r, ne_app_l. discriminate.
Qed.

Lemma ord_file_lines_ok i : wf_ord i = true -> Forall line_ok (PO.file_lines i).
Proof.
  intros W. apply lines_ok_intro; [|apply ord_file_lines_ne]. apply PO.file_lines_no_break. now apply PO.wf_ord_prop.
Qed.

(* every entry point, every flag combination, every restyling = parse_file on the canonical file *)
Theorem entrypoints_ord_flags e dt f pads i : wf_ord i = true -> wf_pad pads = true ->
  parse_entry e COrd dt f (restyle pads (ord_write i)) = parse_file_model COrd dt f (ord_write i).
Proof.
  intros W P. rewrite PO.ord_write_lines. apply entrypoints_text_proof; [exact P|now apply ord_file_lines_ok].
Qed.

(* ... and that is the instance that was written (ballots in file order), whatever valid extension the file carries *)
Theorem entrypoints_ord e dt pads i : wf_ord i = true -> wf_pad pads = true -> type_validator COrd dt = true ->
  parse_entry e COrd dt (mkFlags false false) (restyle pads (ord_write i)) = Ok (IOrd (OrdIO.sorted_view i)).
Proof.
  intros W P V. rewrite entrypoints_ord_flags by assumption.
  unfold parse_file_model, parse_lines. rewrite V. unfold class_parse. cbn [autocorrect header_only].
  now rewrite (PO.C01_roundtrip_proof i dt W).
Qed.

(* ================================================================================================ *)
(* matching (token instantiation)                                                                   *)
(* ================================================================================================ *)
Lemma wmd_file_lines_ne (i : twinst) : Forall ne (PW.file_lines text tok_show i).
Proof.
  unfold PW.file_lines, PW.header_lines. repeat apply Forall_app_intro.
  - apply meta_lines_ne.
  - unfold PW.count_alts_line, PW.count_edges_line. repeat constructor; apply ne_app_r, ne_cons.
  - apply name_lines_ne.
  - apply Forall_forall. intros l Hl. unfold PW.elines in Hl. apply in_map_iff in Hl as [b [<- _]]. unfold PW.eline.
    apply ne_app_r, ne_app_l. discriminate.
Qed.

Lemma wmd_file_lines_ok i : PW.wf_tok i -> Forall line_ok (PW.file_lines text tok_show i).
Proof.
  intros W. apply lines_ok_intro; [|apply wmd_file_lines_ne]. apply (PW.file_lines_no_break text tok_show tok_read).
  now apply PW.wf_tok_wf.
Qed.

Theorem entrypoints_wmd_flags e dt f pads i : PW.wf_tok i -> wf_pad pads = true ->
  parse_entry e CWmd dt f (restyle pads (wmd_write_tok i)) = parse_file_model CWmd dt f (wmd_write_tok i).
Proof.
  intros W P. unfold wmd_write_tok. rewrite PW.wmd_write_lines. apply entrypoints_text_proof; [exact P|now apply wmd_file_lines_ok].
Qed.

Theorem entrypoints_wmd e pads i : PW.wf_tok i -> wf_pad pads = true ->
  parse_entry e CWmd (lit "wmd") (mkFlags false false) (restyle pads (wmd_write_tok i)) = Ok (IWmd (PW.reparsed text i)).
Proof.
  intros W P. rewrite entrypoints_wmd_flags by assumption.
  unfold parse_file_model, parse_lines. cbn [type_validator]. rewrite teqb_refl. unfold class_parse. cbn [autocorrect header_only].
  unfold wmd_parse_tok, wmd_write_tok.
  now rewrite (PW.roundtrip_readlines text tok_show tok_read i (PW.wf_tok_wf i W)).
Qed.

(* header_only on a written matching file: here the declared num_edges IS the number of stored edges *)
Theorem header_only_wmd e pads i : PW.wf_tok i -> wf_pad pads = true ->
  parse_entry e CWmd (lit "wmd") (mkFlags false true) (restyle pads (wmd_write_tok i)) =
  Ok (header_of (IWmd (PW.reparsed text i))).
Proof.
  intros W P. rewrite entrypoints_wmd_flags by assumption.
  unfold parse_file_model, parse_lines. cbn [type_validator]. rewrite teqb_refl. unfold class_parse. cbn [autocorrect header_only].
  unfold wmd_parse_tok, wmd_write_tok.
  rewrite (PW.header_only_readlines text tok_show tok_read i (PW.wf_tok_wf i W)). cbn [rmap header_of].
  unfold PW.reparsed. cbn [w_meta w_num_edges]. do 3 f_equal.
  destruct W as [[_ [_ [_ [WN [_ [NE _]]]]]] _]. rewrite NE.
  now rewrite (PrefVerif.Proofs.WmdGraph.rebuilt_num_stored _ WN).
Qed.

(* ================================================================================================ *)
(* header_only and get_parsed_instance on restyled files                                            *)
(* ================================================================================================ *)
(* header_only through every entry point on every restyling, relative to the full parse of the canonical text *)
Theorem header_only_restyled_proof e c dt pads ls i : wf_pad pads = true -> Forall line_ok ls ->
  parse_file_model c dt (mkFlags false false) (unlines ls) = Ok i ->
  exists h, parse_entry e c dt (mkFlags false true) (restyle pads (unlines ls)) = Ok h /\
            inst_empty h = true /\ header_agrees h i.
Proof.
  intros P L H. rewrite entrypoints_text_proof by assumption. unfold parse_file_model in *.
  destruct (header_only_proof _ _ _ _ _ H) as [h [E [A [_ B]]]]. exists h. auto.
Qed.

Lemma header_agrees_ord h o : header_agrees h (IOrd o) -> h = header_of (IOrd o).
Proof. destruct h; exact (fun H => H). Qed.

Theorem header_only_ord e dt pads i : wf_ord i = true -> wf_pad pads = true -> type_validator COrd dt = true ->
  parse_entry e COrd dt (mkFlags false true) (restyle pads (ord_write i)) = Ok (header_of (IOrd (OrdIO.sorted_view i))).
Proof.
  intros W P V. rewrite entrypoints_ord_flags by assumption.
  assert (F : parse_file_model COrd dt (mkFlags false false) (ord_write i) = Ok (IOrd (OrdIO.sorted_view i))).
  { unfold parse_file_model, parse_lines. rewrite V. unfold class_parse. cbn [autocorrect header_only].
    now rewrite (PO.C01_roundtrip_proof i dt W). }
  unfold parse_file_model in *. destruct (header_only_proof _ _ _ _ _ F) as [h [E [_ [_ B]]]].
  rewrite E. f_equal. apply header_agrees_ord. now apply B.
Qed.

(* get_parsed_instance on the restyled file *)
Theorem entrypoints_ord_get dt pads i : wf_ord i = true -> wf_pad pads = true -> type_validator COrd dt = true ->
  get_parsed_instance_model dt (mkFlags false false) (restyle pads (ord_write i)) = Ok (IOrd (OrdIO.sorted_view i)).
Proof.
  intros W P V. rewrite (get_is_parse_file dt COrd) by (now apply dispatch_valid).
  exact (entrypoints_ord EFile dt pads i W P V).
Qed.

Theorem entrypoints_wmd_get pads i : PW.wf_tok i -> wf_pad pads = true ->
  get_parsed_instance_model (lit "wmd") (mkFlags false false) (restyle pads (wmd_write_tok i)) = Ok (IWmd (PW.reparsed text i)).
Proof.
  intros W P. rewrite (get_is_parse_file (lit "wmd") CWmd) by reflexivity.
  exact (entrypoints_wmd EFile pads i W P).
Qed.

(* ================================================================================================ *)
(* categorical                                                                                      *)
(* ================================================================================================ *)
(* what the written file needs to consist of proper lines: single-line header values and names (no line boundary,
   no outer whitespace — the first half of the well-formedness of C08) and at least one category per ballot *)
Definition cat_text_ok (i : cinst) : Prop :=
  wf_fields (c_meta i) /\
  Forall (fun p => wf_field (snd p)) (alt_names (c_meta i)) /\
  Forall (fun p => wf_field (snd p)) (c_cat_names i) /\
  Forall (fun b => b <> []) (c_prefs i).

Definition cat_file_lines (i : cinst) : list text :=
  PC.header_lines i ++ map (PC.ballot_text (c_mult i)) (sorted_prefs i).

Lemma cat_file_lines_ne i : Forall ne (cat_file_lines i).
Proof.
  unfold cat_file_lines, PC.header_lines. repeat apply Forall_app_intro.
  - apply meta_lines_ne.
  - unfold PC.count_lines. repeat constructor; apply ne_app_r, ne_cons.
  - apply name_lines_ne.
  - apply name_lines_ne.
  - apply Forall_forall. intros l Hl. apply in_map_iff in Hl as [b [<- _]]. unfold PC.ballot_text.
    apply ne_app_r, ne_app_l. discriminate.
Qed.

Lemma forallb_app_intro {T} (p : T -> bool) a b : forallb p a = true -> forallb p b = true -> forallb p (a ++ b) = true.
Proof. intros Ha Hb. now rewrite forallb_app, Ha, Hb. Qed.

Lemma cat_file_lines_no_break i : cat_text_ok i -> forallb no_break (cat_file_lines i) = true.
Proof.
  intros [WF [WA [WC WB]]]. unfold cat_file_lines, PC.header_lines. repeat apply forallb_app_intro.
  - now apply meta_lines_no_break.
  - apply PC.count_lines_no_break.
  - unfold PC.cat_name_lines. apply PC.name_lines_no_break; [reflexivity|exact WC].
  - now apply alt_name_lines_no_break.
  - apply forallb_forall. intros l Hl. apply in_map_iff in Hl as [b [<- Hb]].
    assert (Hin : In b (c_prefs i)).
    { eapply Permutation.Permutation_in; [apply Permutation.Permutation_sym, PC.sorted_prefs_perm|exact Hb]. }
    rewrite Forall_forall in WB. specialize (WB b Hin). destruct b as [|c b']; [now elim WB|].
    apply PC.ballot_text_no_break.
Qed.

Theorem entrypoints_cat_flags e dt f pads i : cat_text_ok i -> wf_pad pads = true ->
  parse_entry e CCat dt f (restyle pads (cat_write i)) = parse_file_model CCat dt f (cat_write i).
Proof.
  intros W P. rewrite PC.cat_write_lines. fold (cat_file_lines i). apply entrypoints_text_proof; [exact P|].
  apply lines_ok_intro; [now apply cat_file_lines_no_break|apply cat_file_lines_ne].
Qed.

(* with the round-trip theorem of C08 (wf_cat: Proofs/CatIO.v) *)
Lemma wf_cat_text_ok i : PC.wf_cat i -> cat_text_ok i.
Proof.
  intros W. split; [apply (PC.wf_meta i W)|]. split; [apply (PC.wf_alts i W)|]. split; [apply (PC.wf_cats i W)|].
  now apply PC.wf_ballots_nonempty, PC.wf_cat_weaken.
Qed.

Lemma cat_canonical i : PC.wf_cat i ->
  parse_file_model CCat (lit "cat") (mkFlags false false) (cat_write i) = Ok (ICat (CatIO.sorted_view i)).
Proof.
  intros W. unfold parse_file_model, parse_lines. cbn [type_validator]. rewrite teqb_refl. unfold class_parse.
  cbn [autocorrect header_only]. now rewrite (PC.roundtrip_readlines i W).
Qed.

Theorem entrypoints_cat e pads i : PC.wf_cat i -> wf_pad pads = true ->
  parse_entry e CCat (lit "cat") (mkFlags false false) (restyle pads (cat_write i)) = Ok (ICat (CatIO.sorted_view i)).
Proof.
  intros W P. rewrite entrypoints_cat_flags by (try assumption; now apply wf_cat_text_ok). now apply cat_canonical.
Qed.

Theorem entrypoints_cat_get pads i : PC.wf_cat i -> wf_pad pads = true ->
  get_parsed_instance_model (lit "cat") (mkFlags false false) (restyle pads (cat_write i)) = Ok (ICat (CatIO.sorted_view i)).
Proof.
  intros W P. rewrite (get_is_parse_file (lit "cat") CCat) by reflexivity.
  exact (entrypoints_cat EFile pads i W P).
Qed.

Lemma header_agrees_cat h o : header_agrees h (ICat o) -> h = header_of (ICat o).
Proof. destruct h; exact (fun H => H). Qed.

Theorem header_only_cat e pads i : PC.wf_cat i -> wf_pad pads = true ->
  parse_entry e CCat (lit "cat") (mkFlags false true) (restyle pads (cat_write i)) = Ok (header_of (ICat (CatIO.sorted_view i))).
Proof.
  intros W P. rewrite entrypoints_cat_flags by (try assumption; now apply wf_cat_text_ok).
  pose proof (cat_canonical i W) as F. unfold parse_file_model in *.
  destruct (header_only_proof _ _ _ _ _ F) as [h [E [_ [_ B]]]]. rewrite E. f_equal. apply header_agrees_cat. now apply B.
Qed.
